"""Fork-per-process-lifetime execution and scratch directories.

infretis keeps process-global state (class-level dicts on REPEX_state, module
global ENGINES, function-attribute counters, cwd-relative files), so every
simulated process lifetime - each case and each restart inside a case - runs
in a real fork with its own cwd and returns a picklable record through a pipe.
"""

from __future__ import annotations

import os
import pickle
import select
import shutil
import signal
import tempfile
import time
import traceback


class ChildTimeout(Exception):
    pass


class ChildCrashed(Exception):
    def __init__(self, status, partial=None):
        super().__init__(f"child exited with status {status}")
        self.status = status
        self.partial = partial


def scratch_root():
    root = os.environ.get("VERIF_SCRATCH")
    if root:
        os.makedirs(root, exist_ok=True)
        return root
    if os.path.isdir("/dev/shm") and os.access("/dev/shm", os.W_OK):
        return "/dev/shm"
    return tempfile.gettempdir()


def mkscratch(prefix="vf_"):
    return tempfile.mkdtemp(prefix=prefix, dir=scratch_root())


def rmscratch(path):
    shutil.rmtree(path, ignore_errors=True)


def run_in_fork(fn, args=(), kwargs=None, cwd=None, timeout=120.0, quiet=True):
    """Run fn(*args, **kwargs) in a forked child; return its result.

    Raises ChildTimeout / ChildCrashed. A Python exception inside the child is
    returned as ('exc', type name, traceback text) and re-raised here as
    RuntimeError unless the caller asked for it via kwargs['_return_exc'].
    """
    kwargs = dict(kwargs or {})
    return_exc = kwargs.pop("_return_exc", False)
    rfd, wfd = os.pipe()
    pid = os.fork()
    if pid == 0:  # ---- child
        code = 0
        try:
            os.close(rfd)
            os.setpgid(0, 0)
            try:  # a child forked from a (daemonic) pool worker must be able to start processes itself
                import multiprocessing as _mp

                _mp.current_process()._config["daemon"] = False
            except Exception:  # noqa: BLE001
                pass
            if cwd:
                os.chdir(cwd)
            if quiet:
                devnull = os.open(os.devnull, os.O_WRONLY)
                os.dup2(devnull, 1)
                os.dup2(devnull, 2)
            try:
                res = ("ok", fn(*args, **kwargs))
            except BaseException as exc:  # noqa: BLE001
                res = ("exc", type(exc).__name__, traceback.format_exc(), str(exc))
            data = pickle.dumps(res, protocol=pickle.HIGHEST_PROTOCOL)
            # length-prefixed: grandchildren may inherit the pipe and keep it open, so EOF is not the end marker
            with os.fdopen(wfd, "wb") as fh:
                fh.write(len(data).to_bytes(8, "big") + data)
        except BaseException:  # noqa: BLE001
            code = 70
        finally:
            os._exit(code)
    # ---- parent
    os.close(wfd)
    buf = b""
    need = None
    deadline = time.time() + timeout
    timed_out = False
    while True:
        left = deadline - time.time()
        if left <= 0:
            timed_out = True
            break
        r, _, _ = select.select([rfd], [], [], min(left, 1.0))
        if r:
            b = os.read(rfd, 1 << 20)
            if not b:
                break
            buf += b
            if need is None and len(buf) >= 8:
                need = int.from_bytes(buf[:8], "big")
            if need is not None and len(buf) >= 8 + need:
                break
        else:
            # child gone without (complete) message?
            try:
                done, _ = os.waitpid(pid, os.WNOHANG)
            except ChildProcessError:
                done = pid
            if done:
                pid_reaped = True
                break
    os.close(rfd)
    if timed_out:
        try:
            os.killpg(pid, signal.SIGKILL)
        except ProcessLookupError:
            pass
        try:
            os.kill(pid, signal.SIGKILL)
        except ProcessLookupError:
            pass
        os.waitpid(pid, 0)
        raise ChildTimeout(f"child did not finish within {timeout}s")
    try:
        _, status = os.waitpid(pid, 0)
    except ChildProcessError:
        status = -1
    # make sure nothing of the child's process group survives (engines' children)
    try:
        os.killpg(pid, signal.SIGKILL)
    except (ProcessLookupError, PermissionError):
        pass
    data = buf[8 : 8 + need] if need is not None and len(buf) >= 8 + need else b""
    if not data:
        raise ChildCrashed(status)
    res = pickle.loads(data)
    if res[0] == "ok":
        return res[1]
    if return_exc:
        return res
    raise RuntimeError(f"exception in child: {res[1]}: {res[3]}\n{res[2]}")
