"""Builders for real engine classes (LAMMPS, CP2K, GROMACS, ASE, TurtleMD) with generated inputs.

Each builder writes an input directory for `natoms` atoms with the given masses and returns an engine
instance whose exe_dir is a scratch directory. External programs are never run by the builders
(GROMACS' constructor calls `gmx grompp`: `gmx` is a fake script or `echo`).
"""

from __future__ import annotations

import os
import shutil

import numpy as np

REPO = os.environ.get("VERIF_REPO", "/repo")
HERE = os.path.dirname(os.path.abspath(__file__))
FAKEBIN = os.path.join(HERE, "fakebin")

# CODATA-style constants, independent of the engine modules
KB_J = 1.380649e-23
NA = 6.02214076e23
HARTREE_J = 4.3597447222071e-18
AMU_IN_ME = 1822.888486209
KB = {
    "cp2k": KB_J / HARTREE_J,  # Ha/K, masses in m_e, velocities in bohr/atu
    "lammps": KB_J * NA / 4184.0,  # kcal/mol/K
    "gromacs": KB_J * NA / 1000.0,  # kJ/mol/K
    "ase": 8.617333262e-5,  # eV/K
}
# factor converting m*v^2 in the engine's file units to the energy unit of KB
MV2 = {"cp2k": 1.0, "lammps": 1.0e7 / 4184.0, "gromacs": 1.0, "ase": 1.0, "turtlemd": 1.0}

ELEMENTS = {"H": 1.007975, "C": 12.0106, "O": 15.9994, "Ar": 39.948, "Li": 6.9675}

LAMMPS_INPUT = """variable 	subcycles index infretis_subcycles
variable	timestep index infretis_timestep
variable	nsteps index infretis_nsteps
variable	initconf index infretis_initconf
variable	name index infretis_name
variable 	lammpsdata index infretis_lammpsdata
variable	temperature index infretis_temperature
variable	seed index infretis_seed

units real
atom_style full
read_data ${lammpsdata} # add
read_dump ${initconf} 0 x y z vx vy vz box yes # add
fix 1 all nve
thermo ${subcycles}
thermo_style custom step ke pe etotal temp
dump 1 all custom ${subcycles} ${name}.lammpstrj id type x y z vx vy vz id
timestep ${timestep} # add
run ${nsteps} # add
"""


def lammps_input_dir(d, masses_by_type, types, pos, box_hi=30.0):
    os.makedirs(d, exist_ok=True)
    n = len(types)
    with open(os.path.join(d, "lammps.input"), "w") as fh:
        fh.write(LAMMPS_INPUT)
    with open(os.path.join(d, "lammps.data"), "w") as fh:
        fh.write(f"Title\n\n{n} atoms\n0 bonds\n\n{len(masses_by_type)} atom types\n0 bond types\n")
        fh.write(f"0 {box_hi} xlo xhi\n0 {box_hi} ylo yhi\n0 {box_hi} zlo zhi\n\nMasses\n\n")
        for t, m in enumerate(masses_by_type):
            fh.write(f"{t + 1}\t{m}\n")
        fh.write("\n\nAtoms\n\n")
        # deliberately unsorted ids
        order = list(range(n))[::-1]
        for i in order:
            fh.write(f"{i + 1}\t1\t{types[i]} 0.000\t{pos[i][0]} {pos[i][1]} {pos[i][2]}\n")
    return d


def lammps_frame_text(types, pos, vel, box, order=None, trailing_id=False, fmt="{!r}"):
    """One .lammpstrj frame. box: 3 x (lo, hi)."""
    n = len(types)
    order = list(range(n)) if order is None else order
    tri = any(len(b) == 3 for b in box)  # triclinic cells: a third column with the tilt factors
    s = f"ITEM: TIMESTEP\n0\nITEM: NUMBER OF ATOMS\n{n}\nITEM: BOX BOUNDS {'xy xz yz ' if tri else ''}pp pp pp\n"
    for b in box:
        s += " ".join(fmt.format(float(x)) for x in b) + "\n"
    s += "ITEM: ATOMS id type x y z vx vy vz" + (" id" if trailing_id else "") + "\n"
    for i in order:
        vals = [fmt.format(float(x)) for x in list(pos[i]) + list(vel[i])]
        s += f"{i + 1} {types[i]} " + " ".join(vals) + (f" {i + 1}" if trailing_id else "") + "\n"
    return s


def make_lammps(root, masses_by_type, types, pos, temperature=300.0, lmp="lmp_fake", subcycles=1, timestep=1.0, sleep=0.001):
    from infretis.classes.engines.lammps import LAMMPSEngine

    inp = lammps_input_dir(os.path.join(root, "lammps_input"), masses_by_type, types, pos)
    eng = LAMMPSEngine(lmp, inp, timestep, subcycles, temperature, sleep=sleep)
    exe = os.path.join(root, "exe")
    os.makedirs(exe, exist_ok=True)
    eng.exe_dir = exe
    return eng


def cp2k_input_dir(d, elements, pos, temperature, box=30.0, cell_form="ABC"):
    """cell_form: the three ways CP2K accepts the same orthorhombic cell: 'ABC', 'vectors' (A / B / C lines), 'angles' (ABC + ALPHA_BETA_GAMMA)."""
    os.makedirs(d, exist_ok=True)
    src = os.path.join(REPO, "examples", "cp2k", "H2", "cp2k_input", "cp2k.inp")
    txt = open(src).read().replace("TEMPERATURE 300", f"TEMPERATURE {temperature}")
    assert "ABC  30.00 30.00 30.00" in txt
    cell = {"ABC": f"ABC  {box} {box} {box}",
            "vectors": f"A  {box} 0.0 0.0\n      B  0.0 {box} 0.0\n      C  0.0 0.0 {box}",
            "angles": f"ABC  {box} {box} {box}\n      ALPHA_BETA_GAMMA  90.0 90.0 90.0"}[cell_form]
    txt = txt.replace("ABC  30.00 30.00 30.00", cell)
    with open(os.path.join(d, "cp2k.inp"), "w") as fh:
        fh.write(txt)
    with open(os.path.join(d, "initial.xyz"), "w") as fh:
        fh.write(f"{len(elements):>8d}\n i =        0, time =        0.000, E =         0.0000000000\n")
        for el, p in zip(elements, pos):
            fh.write(f"{el:>3s} {p[0]:20.10f}{p[1]:20.10f}{p[2]:20.10f}\n")
    return d


def make_cp2k(root, elements, pos, temperature=300.0, cp2k="cp2k_fake", subcycles=1, timestep=0.5, sleep=0.001, cell_form="ABC"):
    from infretis.classes.engines.cp2k import CP2KEngine

    inp = cp2k_input_dir(os.path.join(root, "cp2k_input"), elements, pos, temperature, cell_form=cell_form)
    eng = CP2KEngine(cp2k, inp, timestep, subcycles, temperature, sleep=sleep)
    exe = os.path.join(root, "exe")
    os.makedirs(exe, exist_ok=True)
    eng.exe_dir = exe
    return eng


def g96_text(pos, vel, box, title="generated", names=None):
    n = len(pos)
    s = f"TITLE\n{title}\nEND\nPOSITION\n"
    lab = lambda i: f"{1:>5d} {'RES':<5s} {(names[i] if names else 'A'):<5s}{i + 1:>7d}"  # noqa: E731  (24 chars)
    for i in range(n):
        s += lab(i) + "".join(f"{x:15.9f}" for x in pos[i]) + "\n"
    s += "END\n"
    if vel is not None:
        s += "VELOCITY\n"
        for i in range(n):
            s += lab(i) + "".join(f"{x:15.9f}" for x in vel[i]) + "\n"
        s += "END\n"
    if box is not None:
        s += "BOX\n" + "".join(f"{x:15.9f}" for x in box) + "\nEND\n"
    return s


def gromacs_input_dir(d, pos, box=(3.0, 3.0, 3.0)):
    os.makedirs(d, exist_ok=True)
    ex = os.path.join(REPO, "examples", "gromacs", "H2", "gromacs_input")
    for f in ("grompp.mdp", "topol.top"):
        shutil.copy(os.path.join(ex, f), os.path.join(d, f))
    with open(os.path.join(d, "conf.g96"), "w") as fh:
        fh.write(g96_text(pos, np.zeros_like(np.asarray(pos, float)), list(box)))
    return d


def make_gromacs(root, masses, pos, temperature=300.0, gmx="echo", subcycles=1, timestep=0.002):
    from infretis.classes.engines.gromacs import GromacsEngine

    inp = gromacs_input_dir(os.path.join(root, "gromacs_input"), pos)
    eng = GromacsEngine(gmx, inp, timestep, subcycles, temperature, masses=list(masses), infretis_genvel=True)
    exe = os.path.join(root, "exe")
    os.makedirs(exe, exist_ok=True)
    eng.exe_dir = exe
    return eng


ASE_CALC = '''"""Free-particle calculator (zero forces) for the verification harness."""
import numpy as np
from ase.calculators.calculator import Calculator, all_changes


class FreeCalc(Calculator):
    implemented_properties = ["energy", "forces"]

    def __init__(self, k=0.0):
        super().__init__()
        self.k = k

    def calculate(self, atoms=None, properties=("energy",), system_changes=all_changes):
        super().calculate(atoms, properties, system_changes)
        n = len(self.atoms)
        self.results["energy"] = 0.0
        self.results["forces"] = np.zeros((n, 3))


class SpringCalc(Calculator):
    """Harmonic spring between atoms 0 and 1 (raw coordinate difference): forces that vary along the trajectory."""
    implemented_properties = ["energy", "forces"]
    K, R0 = 0.35, 2.0

    def calculate(self, atoms=None, properties=("energy",), system_changes=all_changes):
        super().calculate(atoms, properties, system_changes)
        pos = self.atoms.get_positions()
        n = len(pos)
        f = np.zeros((n, 3))
        e = 0.0
        if n >= 2:
            d = pos[1] - pos[0]
            r = float(np.linalg.norm(d))
            e = 0.5 * self.K * (r - self.R0) ** 2
            g = self.K * (r - self.R0) * d / r
            f[0], f[1] = g, -g
        self.results["energy"] = e
        self.results["forces"] = f
'''


def make_ase(root, temperature=300.0, integrator="velocityverlet", subcycles=1, timestep=1.0, fixcm=False, forces=False):
    from infretis.classes.engines.ase_engine import ASEEngine

    os.makedirs(root, exist_ok=True)
    calc = os.path.join(root, "freecalc.py")
    with open(calc, "w") as fh:
        fh.write(ASE_CALC)
    kw = {}
    if integrator == "langevin":
        kw = {"langevin_friction": 0.01, "langevin_fixcm": bool(fixcm)}
    eng = ASEEngine(timestep, temperature, subcycles, root, integrator, {"module": calc, "class": "SpringCalc" if forces else "FreeCalc"}, **kw)
    exe = os.path.join(root, "exe")
    os.makedirs(exe, exist_ok=True)
    eng.exe_dir = exe
    return eng


def ase_frame(path, symbols, masses, pos, vel, cell=30.0):
    from ase import Atoms
    from ase.io import write

    at = Atoms(symbols=symbols, positions=np.asarray(pos, float), cell=[cell] * 3, pbc=True)
    at.set_masses(np.asarray(masses, float))
    at.set_velocities(np.asarray(vel, float))
    write(path, at)
    return at


def make_turtlemd(root, masses, pos, temperature=1.0, boltzmann=1.0, integrator="VelocityVerlet", subcycles=1, timestep=0.01, dim=3, user_seed=None, forces=False):
    from infretis.classes.engines.turtlemdengine import TurtleMDEngine

    os.makedirs(root, exist_ok=True)
    integ = {"class": integrator, "settings": {}}
    if integrator.lower() == "langevininertia":
        integ["settings"] = {"gamma": 0.3, "beta": 1.0 / (boltzmann * temperature)}
        if user_seed is not None:
            integ["settings"]["seed"] = user_seed  # a stray user setting must not replace the job's seed
    n = len(masses)
    if dim == 3:
        potential = {"class": "LennardJones", "settings": {"parameters": {1: {"sigma": 1.0, "epsilon": 0.6, "rcut": 8.0} if forces else {"sigma": 0.3, "epsilon": 0.0, "rcut": 0.5}}}}
    elif dim == 2:  # as in the repository's 2D examples
        potential = {"class": "DoubleWellPair", "settings": {"parameters": {"rzero": 1.0, "height": 6.0, "width": 0.25}}}
    else:
        potential = {"class": "DoubleWell", "settings": {"a": 1.0, "b": 2.0, "c": 0.0}}
    eng = TurtleMDEngine(
        timestep, subcycles, temperature, boltzmann, integ,
        potential,
        {"mass": list(masses), "name": ["Ar"] * n, "pos": [list(p[:dim]) for p in pos]},
        {"periodic": [True] * dim, "low": [0.0] * dim, "high": [50.0] * dim},
    )
    exe = os.path.join(root, "exe")
    os.makedirs(exe, exist_ok=True)
    eng.exe_dir = exe
    return eng


def system_for(config_file, idx=0, vel_rev=False):
    from infretis.classes.system import System

    s = System()
    s.config = (config_file, idx)
    s.vel_rev = vel_rev
    s.order = [0.0]
    return s
