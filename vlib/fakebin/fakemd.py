"""Shared pieces of the fake MD programs (lmp, cp2k, gmx) used by the verification harness.

They integrate free flight with elastic reflection in the box and write the real file formats.
A JSON *behaviour script* (file fake_behaviour.json in the working directory, or $FAKEMD_BEHAVIOUR)
controls how the output becomes visible: frames per flush, pause between flushes, a flush in the
middle of a frame, death with an exit code at frame m, slow reaction to SIGTERM, a box that changes
per frame. Only the standard library is used (numpy-free, fast start-up).
"""
import json
import os
import signal
import sys
import time


def behaviour():
    p = os.environ.get("FAKEMD_BEHAVIOUR") or "fake_behaviour.json"
    b = {"flush": [1], "pause": 0.002, "partial": False, "die_at": None, "exit_code": 0, "ignore_term": 0.0, "box_rate": 0.0, "tail_sleep": 0.0}
    try:
        with open(p) as fh:
            b.update(json.load(fh))
    except (FileNotFoundError, ValueError):
        pass
    return b


def maybe_launcher(b):
    """Behaviour `launcher`: act like a wrapper script / job launcher that starts the real program as a child
    in the same process group and waits for it. The launcher itself dies on SIGTERM (default action) without
    forwarding the signal, so only a signal sent to the whole group stops the worker."""
    if not b.get("launcher") or os.environ.get("FAKEMD_WORKER"):
        return
    import subprocess

    p = subprocess.Popen([sys.executable] + sys.argv, env=dict(os.environ, FAKEMD_WORKER="1"))
    rc = p.wait()
    if rc < 0:  # the worker was killed by a signal: die the same way
        signal.signal(-rc, signal.SIG_DFL)
        os.kill(os.getpid(), -rc)
        time.sleep(5)
    sys.exit(rc)


class Term:
    """SIGTERM handling: die at once, or only after `ignore_term` seconds."""

    def __init__(self, delay):
        self.delay = delay
        self.at = None
        signal.signal(signal.SIGTERM, self.handler)

    def handler(self, signum, frame):
        if self.delay <= 0:
            os._exit(143)
        if self.at is None:
            self.at = time.time()

    def check(self):
        if self.at is not None and time.time() - self.at >= self.delay:
            os._exit(143)


def step(pos, vel, lo, hi, dt):
    """Free flight with elastic reflection, in place."""
    for a in range(len(pos)):
        for d in range(3):
            x = pos[a][d] + vel[a][d] * dt
            v = vel[a][d]
            for _ in range(4):
                if x > hi[d]:
                    x, v = 2 * hi[d] - x, -v
                elif x < lo[d]:
                    x, v = 2 * lo[d] - x, -v
                else:
                    break
            pos[a][d], vel[a][d] = x, v


def energies(pos, vel, k):
    """Deterministic 'energies' that identify the frame: E_k = f(k)."""
    return 0.5 + 0.001 * k, -1.0 - 0.01 * k  # ekin, vpot


class Emitter:
    """Writes chunks to files according to the behaviour script."""

    def __init__(self, b, term):
        self.b, self.term = b, term
        self.pending = 0
        self.cycle = 0

    def frame_done(self, handles, texts, k):
        """texts: one str/bytes per handle for frame k."""
        b = self.b
        if b["die_at"] is not None and k == b["die_at"]:
            for h in handles:
                h.flush()
            if b.get("die_signal"):  # death by a signal (segfault, OOM kill, ...): negative return code for the parent
                signal.signal(int(b["die_signal"]), signal.SIG_DFL)
                os.kill(os.getpid(), int(b["die_signal"]))
                time.sleep(5)
            os._exit(int(b["exit_code"]) or 1)
        if b["partial"] and k > 0:
            for h, t in zip(handles, texts):
                cut = max(1, len(t) // 2)
                h.write(t[:cut])
                h.flush()
            time.sleep(b["pause"])
            self.term.check()
            for h, t in zip(handles, texts):
                cut = max(1, len(t) // 2)
                h.write(t[cut:])
        else:
            for h, t in zip(handles, texts):
                h.write(t)
        self.pending += 1
        want = b["flush"][self.cycle % len(b["flush"])]
        burst = b.get("burst_from")
        if burst is not None and k >= burst:
            # "burst": from frame `burst_from` on nothing is flushed and there are no pauses: the remaining frames become visible
            # in one go at the end, right before the program exits (before that frame the program idles long enough to be polled)
            if k == burst:
                for h in handles:
                    h.flush()
                time.sleep(max(0.05, 6 * float(b.get("poll_hint", 0.02))))
                self.term.check()
            return
        if self.pending >= want:
            for h in handles:
                h.flush()
            self.pending = 0
            self.cycle += 1
            time.sleep(b["pause"])
        self.term.check()

    def finish(self, handles):
        for h in handles:
            h.flush()
        t_end = time.time() + float(self.b["tail_sleep"] or 0.0)
        while time.time() < t_end:  # in slices, so that a delayed reaction to SIGTERM (ignore_term) stays that short
            time.sleep(0.01)
            self.term.check()
        self.term.check()
        code = int(self.b["exit_code"]) if self.b["die_at"] is None else 0
        return code
