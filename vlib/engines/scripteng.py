"""Scripted plug-in engine: the trajectories are the generated input.

Each `propagate` call number c consumes script[c] = {"inc": [d1, d2, ...], "drift": d}: the
order coordinate moves x <- x + d_k per frame; when the increments are used up it keeps moving
by `drift` (non-zero) so that it eventually leaves any finite interface pair. In backward
direction (reverse=True) the same increments are applied (the script is per call, the caller
decides what they mean). Frames are text lines "x v vpot". Everything random comes from
self.rgen (only used by modify_velocities when `kick` is on).

Only _propagate_from / the frame format / modify_velocities are ours; propagate(),
add_to_path(), dump_frame() etc. are infretis'. The engine logs every call for the oracle.
"""
import os

import numpy as np

from infretis.classes.engines.enginebase import EngineBase
from infretis.classes.orderparameter import OrderParameter


class ScriptOP(OrderParameter):
    def __init__(self, veldep=False):
        super().__init__(description="scripted coordinate", velocity=bool(veldep))
        self.veldep = bool(veldep)

    def calculate(self, system):
        x = float(system.pos[0][0])
        if self.veldep:
            x += 0.25 * float(system.vel[0][0])
        return [x]


def read_frames(filename):
    out = []
    with open(filename) as fh:
        for line in fh:
            sp = line.split()
            if sp:
                out.append((float(sp[0]), float(sp[1]), float(sp[2])))
    return out


def write_frames(filename, frames, mode="w"):
    with open(filename, mode) as fh:
        for x, v, e in frames:
            fh.write(f"{x!r} {v!r} {e!r}\n")


class ScriptEngine(EngineBase):
    def __init__(self, timestep=1.0, subcycles=1, temperature=1.0, kpot=0.0, kick=False, fail_after=None):
        super().__init__("scripted engine", timestep, subcycles)
        self.temperature = temperature
        self._beta = 1.0 / temperature
        self.ext = "scr"
        self.name = "script"
        self.kpot = float(kpot)
        self.kick = bool(kick)
        self.fail_after = fail_after
        self.script = []
        self.calls = []
        self.ncall = 0

    def step(self):
        raise NotImplementedError

    def set_mdrun(self, md_items):
        self.exe_dir = md_items["exe_dir"]

    def vpot(self, x):
        return self.kpot * x * x

    def _extract_frame(self, traj_file, idx, out_file):
        write_frames(out_file, [read_frames(traj_file)[idx]])

    @staticmethod
    def _read_configuration(filename):
        x, v, _ = read_frames(filename)[0]
        return np.array([[x, 0.0, 0.0]]), np.array([[v, 0.0, 0.0]]), np.array([1.0e9] * 3), ["X"]

    def _reverse_velocities(self, filename, outfile):
        x, v, e = read_frames(filename)[0]
        write_frames(outfile, [(x, -v, e)])

    def modify_velocities(self, system, vel_settings):
        if not hasattr(self, "vel_requests"):
            self.vel_requests = []
        self.vel_requests.append(dict(vel_settings))  # what the move asked for (zero_momentum, ...)
        pos = self.dump_frame(system)
        x, v, e = read_frames(pos)[0]
        kin_old = 0.5 * v * v
        if self.kick:
            v = float(self.rgen.normal())
        conf_out = os.path.join(self.exe_dir, f"genvel.{self.ext}")
        write_frames(conf_out, [(x, v, e)])
        system.config = (conf_out, 0)
        kin_new = 0.5 * v * v
        system.ekin = kin_new
        dek = float("inf") if kin_old == 0 else kin_new - kin_old
        return dek, kin_new

    def _propagate_from(self, name, path, system, ens_set, msg_file, reverse=False):
        left, _, right = ens_set["interfaces"]
        xyz, vel, box, _ = self._read_configuration(system.config[0])
        x, v = float(xyz[0][0]), float(vel[0][0])
        sc = self.script[self.ncall] if self.ncall < len(self.script) else {"inc": [], "drift": 1.0}
        self.ncall += 1
        inc = list(sc.get("inc", []))
        drift = sc.get("drift", 1.0) or 1.0
        traj_file = os.path.join(self.exe_dir, f"{name}.{self.ext}")
        log = {"reverse": bool(reverse), "x0": x, "maxlen": path.maxlen, "left": left, "right": right, "frames": [], "file": traj_file}
        self.calls.append(log)
        success, status = False, "scripted"
        step_nr = 0
        ekin, vpot = [], []
        open(traj_file, "w").close()
        while True:
            if self.fail_after is not None and step_nr >= self.fail_after:
                raise RuntimeError("scripted engine failure")
            write_frames(traj_file, [(x, v, self.vpot(x))], mode="a")
            log["frames"].append(x)
            order = self.calculate_order(system, xyz=np.array([[x, 0.0, 0.0]]), vel=np.array([[v, 0.0, 0.0]]), box=box)
            snapshot = {"order": order, "config": (traj_file, step_nr), "vel_rev": reverse, "vpot": self.vpot(x), "ekin": 0.5 * v * v}
            phase_point = self.snapshot_to_system(system, snapshot)
            status, success, stop, _ = self.add_to_path(path, phase_point, left, right)
            ekin.append(0.5 * v * v)
            vpot.append(self.vpot(x))
            if stop:
                break
            d = inc.pop(0) if inc else drift
            x = x + d
            step_nr += 1
        path.update_energies(ekin, vpot)
        log["success"] = bool(success)
        return success, status


class BilliardEngine(ScriptEngine):
    """Deterministic, exactly time-reversible integer dynamics: x <- x + v with elastic walls.

    Reversal (x, -v) retraces the orbit exactly, so swap o swap = identity can be checked with ==.
    """

    def __init__(self, wl=-6, wr=9, **kw):
        super().__init__(**kw)
        self.wl, self.wr = int(wl), int(wr)
        self.description = "billiard engine"

    def _propagate_from(self, name, path, system, ens_set, msg_file, reverse=False):
        left, _, right = ens_set["interfaces"]
        xyz, vel, box, _ = self._read_configuration(system.config[0])
        x, v = int(xyz[0][0]), int(vel[0][0])
        self.ncall += 1
        traj_file = os.path.join(self.exe_dir, f"{name}.{self.ext}")
        log = {"reverse": bool(reverse), "x0": x, "maxlen": path.maxlen, "left": left, "right": right, "frames": [], "file": traj_file}
        self.calls.append(log)
        success, status = False, "billiard"
        step_nr = 0
        ek, vp = [], []
        open(traj_file, "w").close()
        while True:
            write_frames(traj_file, [(float(x), float(v), 0.0)], mode="a")
            log["frames"].append(float(x))
            order = self.calculate_order(system, xyz=np.array([[float(x), 0.0, 0.0]]), vel=np.array([[float(v), 0.0, 0.0]]), box=box)
            snapshot = {"order": order, "config": (traj_file, step_nr), "vel_rev": reverse, "vpot": 0.0, "ekin": 0.5 * v * v}
            status, success, stop, _ = self.add_to_path(path, self.snapshot_to_system(system, snapshot), left, right)
            ek.append(0.5 * v * v)
            vp.append(0.0)
            if stop:
                break
            x = x + v
            # walls sit at wr + 1/2 and wl - 1/2, so an integer position is never on a wall
            if x > self.wr:
                x, v = 2 * self.wr + 1 - x, -v
            elif x < self.wl:
                x, v = 2 * self.wl - 1 - x, -v
            step_nr += 1
        path.update_energies(ek, vp)
        log["success"] = bool(success)
        return success, status
