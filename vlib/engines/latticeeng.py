"""Plug-in engine + order parameter used by the verification harness.

Loaded by infretis through its documented extension point
([engine] class="LatticeEngine", module="latticeeng.py").

LatticeEngine: symmetric +-1 random walk on the integers x >= wall with lazy
reflection at the wall (a rejected step stays), i.e. a symmetric, reversible
transition matrix with uniform stationary measure. With interfaces
lambda_k = k + 1/2 the exact conditional crossing probabilities are
P(lambda_{k+1} | lambda_k) = (k+1)/(k+2).

Only `_propagate_from`, the tiny text frame format and `modify_velocities`
are ours; `propagate`, `add_to_path`, path storage etc. are infretis'.
All randomness is drawn from `self.rgen` (the job's engine stream).
"""
import os

import numpy as np

from infretis.classes.engines.enginebase import EngineBase
from infretis.classes.orderparameter import OrderParameter


class LatticeOP(OrderParameter):
    def __init__(self, origin=0.0):
        # origin: the order parameter is the lattice position minus this constant (a translated copy of the same system;
        # multiples of 1/2, so exact) - lets an interface or the cap sit on 0.0
        super().__init__(description="lattice position", velocity=False)
        self.origin = float(origin)

    def calculate(self, system):
        return [float(system.pos[0][0]) - self.origin]


def read_frames(filename):
    with open(filename) as fh:
        return [int(line.split()[0]) for line in fh if line.strip()]


class LatticeEngine(EngineBase):
    def __init__(self, wall=-1, timestep=1.0, subcycles=1, temperature=1.0, side_files=False):
        super().__init__("lattice walk", timestep, subcycles)
        self.wall = int(wall)
        # side_files: every trajectory file gets a companion <name>.side (like the .edr / -1.ener files of real programs),
        # for configurations that keep such files with output.keep_traj_fnames
        self.side_files = bool(side_files)
        self.temperature = temperature
        self._beta = 1.0 / temperature
        self.ext = "lat"
        self.name = "lattice"
        self.n_propagate = 0

    def step(self):  # required by create_external
        raise NotImplementedError

    def set_mdrun(self, md_items):
        self.exe_dir = md_items["exe_dir"]

    def _extract_frame(self, traj_file, idx, out_file):
        x = read_frames(traj_file)[idx]
        with open(out_file, "w") as fh:
            fh.write(f"{x}\n")

    @staticmethod
    def _read_configuration(filename):
        x = read_frames(filename)[0]
        return np.array([[float(x), 0.0, 0.0]]), np.zeros((1, 3)), np.array([1.0e9, 1.0e9, 1.0e9]), ["X"]

    def _reverse_velocities(self, filename, outfile):
        self._copyfile(filename, outfile)

    def modify_velocities(self, system, vel_settings):
        pos = self.dump_frame(system)
        conf_out = os.path.join(self.exe_dir, f"genvel.{self.ext}")
        if pos != conf_out:
            self._copyfile(pos, conf_out)
        system.config = (conf_out, 0)
        system.ekin = 0.0
        return 0.0, 0.0

    def _propagate_from(self, name, path, system, ens_set, msg_file, reverse=False):
        self.n_propagate += 1
        left, _, right = ens_set["interfaces"]
        xyz, vel, box, _ = self._read_configuration(system.config[0])
        x = int(xyz[0][0])
        traj_file = os.path.join(self.exe_dir, f"{name}.{self.ext}")
        success, status = False, "propagating lattice walk"
        step_nr = 0
        with open(traj_file, "w") as out:
            while True:
                out.write(f"{x}\n")
                out.flush()
                order = self.calculate_order(system, xyz=np.array([[float(x), 0.0, 0.0]]), vel=vel, box=box)
                snapshot = {"order": order, "config": (traj_file, step_nr), "vel_rev": reverse}
                phase_point = self.snapshot_to_system(system, snapshot)
                status, success, stop, _ = self.add_to_path(path, phase_point, left, right)
                if stop:
                    break
                for _ in range(self.subcycles):
                    if self.rgen.integers(0, 2) == 1:
                        x += 1
                    elif x > self.wall:
                        x -= 1
                step_nr += 1
        if self.side_files:
            with open(os.path.join(self.exe_dir, f"{name}.side"), "w") as fh:
                fh.write(f"{step_nr + 1} frames\n")
        n = path.length
        path.update_energies([0.0] * n, [0.0] * n)
        return success, status
