#!/venv/bin/python
"""Coverage-guided fuzz target (atheris / libFuzzer) for C13: on-the-fly readers never return a torn frame.

The fuzzer's bytes are decoded (FuzzedDataProvider) into a trajectory of one of the three formats (LAMMPS dump, CP2K xyz,
GROMACS TRR) written by the harness' own encoders, and a write schedule (up to 8 increasing cut offsets with idle polls).
The semantic oracle of checks/C13.py runs inside the target: a reader exception, a frame returned before its bytes were
on disk, a frame that differs from what was written, or frames missing after the writer finished raise -> libFuzzer saves
the input. Coverage is collected in infretis' reader modules only.

  fuzz_c13.py <workdir> -runs=N -seed=S        (spawned by `./check C13 --part fuzz`; stats go to <workdir>/stats.json)
  fuzz_c13.py --decode <hexbytes>              (print the decoded case)
"""
import json
import os
import sys

import atheris

with atheris.instrument_imports(include=["infretis.classes.engines.engineparts", "infretis.classes.engines.gromacs", "infretis.classes.engines.lammps"]):
    import infretis.classes.engines.engineparts  # noqa: F401
    import infretis.classes.engines.gromacs  # noqa: F401
    import infretis.classes.engines.lammps  # noqa: F401

from checks import C13  # noqa: E402
from vlib.cli import Rec, Violation  # noqa: E402

POOL = [0.0, -0.0, 1.0, -1.5, 123.4567891, 1e-5, -2.5e-7, 99.9999999, 999.0, -999.0, 0.1, 7.25]
STATE = {"n": 0, "nontrivial": 0, "kinds": {}, "work": None, "viol": None}


def num(fdp):
    if fdp.ConsumeBool():
        return POOL[fdp.ConsumeIntInRange(0, len(POOL) - 1)]
    return round(fdp.ConsumeFloatInRange(-999.0, 999.0), 7)


def decode(data):
    fdp = atheris.FuzzedDataProvider(data)
    kind = ["lammps", "xyz", "trr"][fdp.ConsumeIntInRange(0, 2)]
    ncuts = fdp.ConsumeIntInRange(0, 8)
    cuts = [fdp.ConsumeIntInRange(0, 65535) / 65535.0 for _ in range(ncuts)]
    idle = fdp.ConsumeIntInRange(0, 2)
    adjacent = fdp.ConsumeBool()
    if kind == "trr":
        n = [1, 2, 3, 8, 20, 40][fdp.ConsumeIntInRange(0, 5)]
        nf = fdp.ConsumeIntInRange(1, 4)
        c = {"kind": "trr", "natoms": n, "endian": ">" if fdp.ConsumeBool() else "<", "double": fdp.ConsumeBool(), "with_v": fdp.ConsumeBool(),
             "with_f": fdp.ConsumeBool(), "with_box": fdp.ConsumeBool(), "exit_with_last": fdp.ConsumeBool(), "exit_in_poll": [None, None, 1, 2, 3, 5][fdp.ConsumeIntInRange(0, 5)], "frames": []}
        if fdp.ConsumeBool():
            c["v_on"] = [fdp.ConsumeBool() for _ in range(nf)]
        if fdp.ConsumeBool():
            c["f_on"] = [fdp.ConsumeBool() for _ in range(nf)]
        for k in range(nf):
            c["frames"].append({"x": [num(fdp) for _ in range(3)] + [0.001 * (i + k) for i in range(3 * n - 3)],
                                "v": [num(fdp) for _ in range(3)] + [-0.002 * (i + k) for i in range(3 * n - 3)],
                                "box": [round(1.0 + fdp.ConsumeIntInRange(0, 190) / 10.0, 4) if i in (0, 4, 8) else 0.0 for i in range(9)]})
    else:
        n = fdp.ConsumeIntInRange(2 if kind == "lammps" else 1, 12)
        nf = fdp.ConsumeIntInRange(1, 4)
        c = {"kind": kind, "natoms": n, "style": "gfe"[fdp.ConsumeIntInRange(0, 2)], "boxcols": 2 + fdp.ConsumeIntInRange(0, 1), "padded": fdp.ConsumeBool(), "frames": []}
        for _ in range(nf):
            order = list(range(n))
            for i in range(n - 1, 0, -1):  # Fisher-Yates driven by the fuzzer
                j = fdp.ConsumeIntInRange(0, i)
                order[i], order[j] = order[j], order[i]
            c["frames"].append({"atoms": [[num(fdp) for _ in range(6)] for _ in range(n)], "order": order,
                                "box": [[-round(fdp.ConsumeIntInRange(0, 5000) / 1000.0, 3), round(6 + fdp.ConsumeIntInRange(0, 14000) / 1000.0, 3)] for _ in range(3)]})
    c.update({"cuts": cuts, "idle": idle, "adjacent": adjacent})
    return c


def schedule(c, length):
    offs = sorted({min(length, max(0, int(f * length))) for f in c["cuts"]})
    if c["adjacent"] and offs:
        offs = sorted(set(offs + [min(length, o + 1) for o in offs]))
    out = []
    for o in offs:
        out += [o] * (1 + c["idle"])
    return offs, out


def one(c, work):
    """Run the C13 oracle on one decoded case; raises Violation."""
    rec = Rec("C13")
    kind = c["kind"]
    if kind == "trr":
        data, want, ends, hdr_ends = C13.trr_file(c)
        offs, sched = schedule(c, len(data))
        sched = [max(1, o) for o in offs]
        path = os.path.join(work, "t.trr")
        got, live, exc = C13.drive_trr(data, sched, path, exit_with_last=c.get("exit_with_last", False), exit_in_poll=c.get("exit_in_poll"), ends=ends)
        info = f"[fuzz] trr natoms={c['natoms']} frames={len(want)} endian={c['endian']} double={c['double']} v={c['with_v']} f={c['with_f']} box={c['with_box']} schedule={sched} file_len={len(data)}"
        if exc:
            raise Violation(f"trr:reader-raises-on-partial-frame:{exc[0]}", f"{exc[1]} at prefix {exc[2]}; {info}")
        import numpy as np

        for k, (fr, written) in enumerate(got):
            if k >= len(want):
                raise Violation("trr:more-frames-than-written", info)
            if ends[k] > written:
                raise Violation("trr:frame-returned-before-it-was-complete", f"frame {k}; {info}")
            w = want[k]
            if not (set(fr.keys()) == set(w.keys()) and all(np.array_equal(np.asarray(fr[key]), w[key]) for key in w)):
                raise Violation("trr:returned-frame-differs-from-written", f"frame {k}; {info}")
        if len(got) != len(want):
            raise Violation("trr:frames-missing-after-writer-finished", f"{len(got)} of {len(want)}; {info}")
        return any(o not in ends for o in sched)
    if kind == "lammps":
        data, frames, boxes, ends, dends = C13.lammps_file(c)
    else:
        data, frames, ends, dends = C13.xyz_file(c)
        boxes = None
    offs, sched = schedule(c, len(data))
    C13.check_text(rec, c, kind, data, frames, boxes, ends, dends, sched, os.path.join(work, "t.txt"), "fuzz")
    return any(o not in ends and o != 0 for o in offs)


def TestOneInput(data):
    c = decode(data)
    STATE["n"] += 1
    try:
        nt = one(c, STATE["work"])
    except Violation as v:
        with open(os.path.join(STATE["work"], "violation.json"), "w") as fh:
            json.dump({"signature": v.signature, "message": v.message[:2000], "hex": bytes(data).hex()}, fh)
        dump_stats()
        raise
    STATE["nontrivial"] += bool(nt)
    STATE["kinds"][c["kind"]] = STATE["kinds"].get(c["kind"], 0) + 1
    if STATE["n"] % 250 == 0:
        dump_stats()


def dump_stats():
    tmp = os.path.join(STATE["work"], "stats.json.tmp")
    with open(tmp, "w") as fh:
        json.dump({"execs": STATE["n"], "nontrivial": STATE["nontrivial"], "kinds": STATE["kinds"]}, fh)
    os.replace(tmp, os.path.join(STATE["work"], "stats.json"))


def main():
    if sys.argv[1] == "--decode":
        print(json.dumps(decode(bytes.fromhex(sys.argv[2])))[:3000])
        return
    work = sys.argv[1]
    STATE["work"] = work
    os.makedirs(os.path.join(work, "corpus"), exist_ok=True)
    argv = [sys.argv[0], os.path.join(work, "corpus")] + sys.argv[2:]
    atheris.Setup(argv, TestOneInput)
    atheris.Fuzz()


if __name__ == "__main__":
    main()
