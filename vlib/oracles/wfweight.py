"""Reference model of the wire-fencing weight, written from the property text.

A *run* is a maximal block of consecutive frames with left <= op < right.
A run counts when it has a predecessor and a successor frame (both outside the
region by maximality) and they are not both on the right (>= right).
Weight = total number of frames in counted runs.
"""


def side(x, left, right):
    if x < left:
        return "L"
    if x >= right:
        return "R"
    return "M"


def runs(orders, left, right):
    """Return list of (first_inside, last_inside, pred_side, succ_side)."""
    out = []
    n = len(orders)
    i = 0
    while i < n:
        if side(orders[i], left, right) == "M":
            j = i
            while j + 1 < n and side(orders[j + 1], left, right) == "M":
                j += 1
            pred = side(orders[i - 1], left, right) if i > 0 else None
            succ = side(orders[j + 1], left, right) if j + 1 < n else None
            out.append((i, j, pred, succ))
            i = j + 1
        else:
            i += 1
    return out


def qualifying(orders, left, right):
    """Sub-paths (start_idx, end_idx, n_inside) in path order."""
    segs = []
    for a, b, pred, succ in runs(orders, left, right):
        if pred is None or succ is None:
            continue
        if pred == "R" and succ == "R":
            continue
        segs.append((a - 1, b + 1, b - a + 1))
    return segs


def wf_weight(orders, left, right):
    return sum(s[2] for s in qualifying(orders, left, right))


def jumps_over(orders, left, right):
    for a, b in zip(orders, orders[1:]):
        if (a < left and b >= right) or (b < left and a >= right):
            return True
    return False
