"""Independent permanent oracle (subset dynamic programming, no code shared with infretis).

matching_probs(W) returns P with P[i][j] = W[i][j] * perm(W without row i, col j) / perm(W)
computed as (total weight of perfect matchings that use edge (i, j)) / perm(W) with a
forward/backward DP over column subsets. Works with int, Fraction or float entries; all
terms are non-negative so there is no cancellation (floats are accurate to ~n*eps).
"""

from fractions import Fraction


def _forward(W):
    n = len(W)
    F = [None] * (n + 1)  # F[r][mask]: rows 0..r-1 matched onto column set mask
    F[0] = {0: 1}
    for r in range(n):
        nxt = {}
        row = W[r]
        for mask, val in F[r].items():
            for j in range(n):
                if not (mask >> j) & 1 and row[j] != 0:
                    m2 = mask | (1 << j)
                    nxt[m2] = nxt.get(m2, 0) + val * row[j]
        F[r + 1] = nxt
    return F


def _backward(W):
    n = len(W)
    B = [None] * (n + 1)  # B[r][mask]: rows r..n-1 matched onto column set mask
    B[n] = {0: 1}
    for r in range(n - 1, -1, -1):
        nxt = {}
        row = W[r]
        for mask, val in B[r + 1].items():
            for j in range(n):
                if not (mask >> j) & 1 and row[j] != 0:
                    m2 = mask | (1 << j)
                    nxt[m2] = nxt.get(m2, 0) + val * row[j]
        B[r] = nxt
    return B


def permanent(W):
    n = len(W)
    if n == 0:
        return 1
    return _forward(W)[n].get((1 << n) - 1, 0)


def matching_probs(W):
    """Return (perm, P) ; P is None when perm == 0."""
    n = len(W)
    full = (1 << n) - 1
    F = _forward(W)
    B = _backward(W)
    per = F[n].get(full, 0)
    if per == 0:
        return 0, None
    P = [[0] * n for _ in range(n)]
    for i in range(n):
        row = W[i]
        for mask, fval in F[i].items():
            rest = full & ~mask
            for j in range(n):
                if (rest >> j) & 1 and row[j] != 0:
                    bval = B[i + 1].get(rest & ~(1 << j))
                    if bval:
                        P[i][j] += fval * row[j] * bval
    if isinstance(per, int):
        P = [[Fraction(x, per) for x in r] for r in P]
    else:
        P = [[x / per for x in r] for r in P]
    return per, P


def brute_permanent(W):
    """Tiny independent cross-check used by the self-test."""
    from itertools import permutations

    n = len(W)
    tot = 0
    for p in permutations(range(n)):
        t = 1
        for i in range(n):
            t *= W[i][p[i]]
        tot += t
    return tot
