"""Independent TRR (GROMACS trajectory) encoder/decoder with struct - shares no code with infretis."""
import struct

MAGIC = 1993
VERSION = b"GMX_trn_file"


def encode_frame(natoms, step, time, lam, box=None, x=None, v=None, f=None, endian=">", double=False, vir=None, pres=None):
    """One TRR frame as bytes. box / vir / pres: 9 floats or None; x/v/f: lists of natoms*3 floats or None."""
    r = "d" if double else "f"
    rs = 8 if double else 4
    sizes = {
        "ir": 0, "e": 0, "box": 9 * rs if box is not None else 0, "vir": 9 * rs if vir is not None else 0, "pres": 9 * rs if pres is not None else 0, "top": 0, "sym": 0,
        "x": natoms * 3 * rs if x is not None else 0, "v": natoms * 3 * rs if v is not None else 0,
        "f": natoms * 3 * rs if f is not None else 0,
    }
    out = struct.pack(f"{endian}i", MAGIC)
    out += struct.pack(f"{endian}2i", len(VERSION) + 1, len(VERSION))
    out += struct.pack(f"{endian}{len(VERSION)}s", VERSION)
    out += struct.pack(f"{endian}13i", sizes["ir"], sizes["e"], sizes["box"], sizes["vir"], sizes["pres"], sizes["top"], sizes["sym"],
                       sizes["x"], sizes["v"], sizes["f"], natoms, step, 0)
    out += struct.pack(f"{endian}2{r}", time, lam)
    header_len = len(out)
    for mat in (box, vir, pres):  # the order of the file format
        if mat is not None:
            out += struct.pack(f"{endian}9{r}", *mat)
    for arr in (x, v, f):
        if arr is not None:
            out += struct.pack(f"{endian}{natoms * 3}{r}", *arr)
    return out, header_len


def as_stored(vals, endian, double):
    """The values a reader must return: the input rounded to the stored precision."""
    r = "d" if double else "f"
    return list(struct.unpack(f"{endian}{len(vals)}{r}", struct.pack(f"{endian}{len(vals)}{r}", *vals)))


def decode_file(data):
    """Independent decoder: bytes -> list of dict(natoms, step, time, box, x, v, f, double, endian)."""
    out, off = [], 0
    while off < len(data):
        if len(data) - off < 84:
            break  # trailing partial header (writer was stopped)
        magic_be = struct.unpack_from(">i", data, off)[0]
        endian = ">" if magic_be == MAGIC else "<"
        if struct.unpack_from(f"{endian}i", data, off)[0] != MAGIC:
            raise ValueError("bad magic")
        off += 4
        slen = struct.unpack_from(f"{endian}2i", data, off)
        off += 8
        off += slen[1]
        h = struct.unpack_from(f"{endian}13i", data, off)
        off += 52
        box_s, x_s, v_s, f_s, natoms, step = h[2], h[7], h[8], h[9], h[10], h[11]
        rs = (box_s // 9) if box_s else (x_s // (3 * natoms))
        r = "d" if rs == 8 else "f"
        time, lam = struct.unpack_from(f"{endian}2{r}", data, off)
        off += 2 * rs
        fr = {"natoms": natoms, "step": step, "time": time, "double": rs == 8, "endian": endian}
        if len(data) - off < box_s + h[3] + h[4] + x_s + v_s + f_s:
            break  # trailing partial frame
        for key, size, cnt in (("box", box_s, 9), ("vir", h[3], 9), ("pres", h[4], 9), ("x", x_s, 3 * natoms), ("v", v_s, 3 * natoms), ("f", f_s, 3 * natoms)):
            if size:
                fr[key] = list(struct.unpack_from(f"{endian}{cnt}{r}", data, off))
                off += size
        out.append(fr)
    return out
