"""Independent TRR (GROMACS trajectory) encoder/decoder with struct - shares no code with infretis."""
import struct

MAGIC = 1993
VERSION = b"GMX_trn_file"


def encode_frame(natoms, step, time, lam, box=None, x=None, v=None, f=None, endian=">", double=False):
    """One TRR frame as bytes. box: 9 floats or None; x/v/f: lists of natoms*3 floats or None."""
    r = "d" if double else "f"
    rs = 8 if double else 4
    sizes = {
        "ir": 0, "e": 0, "box": 9 * rs if box is not None else 0, "vir": 0, "pres": 0, "top": 0, "sym": 0,
        "x": natoms * 3 * rs if x is not None else 0, "v": natoms * 3 * rs if v is not None else 0,
        "f": natoms * 3 * rs if f is not None else 0,
    }
    out = struct.pack(f"{endian}i", MAGIC)
    out += struct.pack(f"{endian}2i", len(VERSION) + 1, len(VERSION))
    out += struct.pack(f"{endian}{len(VERSION)}s", VERSION)
    out += struct.pack(f"{endian}13i", sizes["ir"], sizes["e"], sizes["box"], sizes["vir"], sizes["pres"], sizes["top"], sizes["sym"],
                       sizes["x"], sizes["v"], sizes["f"], natoms, step, 0)
    out += struct.pack(f"{endian}2{r}", time, lam)
    header_len = len(out)
    if box is not None:
        out += struct.pack(f"{endian}9{r}", *box)
    for arr in (x, v, f):
        if arr is not None:
            out += struct.pack(f"{endian}{natoms * 3}{r}", *arr)
    return out, header_len


def as_stored(vals, endian, double):
    """The values a reader must return: the input rounded to the stored precision."""
    r = "d" if double else "f"
    return list(struct.unpack(f"{endian}{len(vals)}{r}", struct.pack(f"{endian}{len(vals)}{r}", *vals)))
