"""Delete-one-replica jackknife for ratio-of-sums estimators."""
import math


def jackknife_ratio(nums, dens):
    """nums, dens: per-replica sums. Returns (estimate, standard error)."""
    R = len(nums)
    N, D = sum(nums), sum(dens)
    if D <= 0 or R < 2:
        return float("nan"), float("inf")
    est = N / D
    loo = []
    for i in range(R):
        d = D - dens[i]
        loo.append((N - nums[i]) / d if d > 0 else est)
    m = sum(loo) / R
    var = (R - 1) / R * sum((x - m) ** 2 for x in loo)
    return est, math.sqrt(var)
