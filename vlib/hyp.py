"""Hypothesis glue: seeded, sharded over processes, failure -> shrunk replay.

`run_property(ctx, name, strategy, body, examples)`:
  * body(rec, case) executes one generated case, counts it with rec.case(...)
    and raises vlib.cli.Violation (directly or through rec.check) when an oracle
    clause fails. Known findings are counted by rec.check and do not raise.
  * cases are plain JSON data so that the shrunk failing case is the replay file.
  * the examples are split over `shards` forked processes, each with a seed
    derived from (VERIF_SEED, name, shard).
  * "collect then shrink": after a failure with signature S the shard re-runs
    with S muted (counted) so other root causes are still found (<= 3 rounds).
"""

from __future__ import annotations

import hashlib
import multiprocessing as mp
import os
import traceback

from hypothesis import HealthCheck, Phase, given, seed, settings
from hypothesis.errors import FlakyFailure, Unsatisfiable

from vlib.cli import Rec, Violation, jsonable

CTX = mp.get_context("fork")


def derive_seed(*parts) -> int:
    h = hashlib.sha256("/".join(str(p) for p in parts).encode()).digest()
    return int.from_bytes(h[:6], "big")


_EXC_MUTE = set()


def _infretis_site(exc):
    """'file:function' of the innermost infretis frame if the exception arose below it (no /verif frame after it)."""
    import traceback as _tb

    frames = _tb.extract_tb(exc.__traceback__)
    last_inf, last_verif = None, None
    for i, fr in enumerate(frames):
        fn = fr.filename.replace("\\", "/")
        if "/infretis/" in fn and "/verif/" not in fn:
            last_inf = (i, fn.split("/infretis/")[-1] + ":" + fr.name)
        if "/verif/" in fn:
            last_verif = i
    if last_inf and (last_verif is None or last_inf[0] > last_verif):
        return last_inf[1]
    return None


_JOBS = []  # inherited by forked workers, so strategies / bodies need not be picklable


def _one_shard_idx(i):
    return _one_shard(_JOBS[i])


def _one_shard(args):
    pid, name, strategy_fn, body, n_examples, sd, shrink, extra = args
    rec = Rec(pid)
    muted = set()
    strategy = strategy_fn() if callable(strategy_fn) else strategy_fn
    for _round in range(3):
        state = {"last": None}
        phases = [Phase.explicit, Phase.generate, Phase.target]
        if shrink:
            phases.append(Phase.shrink)

        @seed(sd + _round)
        @settings(
            max_examples=n_examples,
            database=None,
            deadline=None,
            report_multiple_bugs=False,
            derandomize=False,
            suppress_health_check=list(HealthCheck),
            phases=phases,
            print_blob=False,
        )
        @given(strategy)
        def prop(case):
            state["last"] = case
            try:
                if extra is None:
                    body(rec, case)
                else:
                    body(rec, case, extra)
            except Violation as v:
                if v.signature in muted:
                    rec.cls("muted:" + v.signature)
                    return
                raise
            except Exception as exc:  # noqa: BLE001
                site = _infretis_site(exc)
                if site and f"EXC:{type(exc).__name__}:{site}" in muted:
                    rec.cls("muted:EXC:" + site)
                    return
                raise

        try:
            prop()
            break
        except Violation as v:
            rec.violation(
                v.signature,
                v.message,
                {"part": name, "case": jsonable(state["last"]), "extra": jsonable(v.extra)},
            )
            muted.add(v.signature)
            if rec.is_known(v.signature):
                continue
        except FlakyFailure as fl:
            # the body failed on the generated example but not when Hypothesis re-executed it: the outcome depends on
            # something outside the case (wall-clock timing of an external program vs. polling). Report what was seen.
            subs = [e for e in getattr(fl, "exceptions", []) if isinstance(e, Violation)]
            if subs:
                v = subs[0]
                rec.violation(v.signature + ":timing-dependent", "[not reproduced on immediate re-execution] " + v.message,
                              {"part": name, "case": jsonable(state["last"]), "extra": jsonable(v.extra)})
                muted.add(v.signature)
                continue
            rec.error(f"{name}: flaky failure without an oracle verdict: {fl!r}"[:3000])
            break
        except Unsatisfiable as e:
            rec.error(f"{name}: generator unsatisfiable: {e}")
            break
        except Exception as exc:
            # An exception that is not an oracle verdict. If it was raised inside infretis (innermost
            # non-library frame is in the package under test, not in /verif) on an in-domain input it is a
            # finding, bucketed by exception type and innermost infretis frame; otherwise a harness error.
            site = _infretis_site(exc)
            if site:
                sig = f"EXC:{type(exc).__name__}:{site}"
                rec.violation(sig, f"{exc!r} on case {str(jsonable(state['last']))[:1200]}", {"part": name, "case": jsonable(state["last"]), "extra": None})
                muted.add(sig)
                _EXC_MUTE.add(sig)
                continue
            rec.error(
                f"{name}: unexpected exception on case "
                f"{str(jsonable(state['last']))[:1500]}\n" + traceback.format_exc()
            )
            break
    return rec


def run_property(
    ctx,
    name,
    strategy,
    body,
    examples,
    shards=None,
    shrink=True,
    extra=None,
):
    """Run body over `examples` generated cases; merge results into ctx."""
    if getattr(ctx, "part", None) and ctx.part != name:
        return
    if shards is None:
        shards = min(ctx.procs, max(1, examples // 50))
    per = max(1, examples // shards)
    jobs = [
        (ctx.pid, name, strategy, body, per, derive_seed(ctx.seed, ctx.pid, name, i), shrink, extra)
        for i in range(shards)
    ]
    if shards == 1:
        results = [_one_shard(jobs[0])]
    else:
        global _JOBS
        _JOBS = jobs
        with CTX.Pool(min(shards, ctx.procs)) as pool:
            results = pool.map(_one_shard_idx, range(len(jobs)), chunksize=1)
        _JOBS = []
    for r in results:
        ctx.merge(r)


def pmap(ctx, fn, items, procs=None, chunksize=1):
    """Parallel map over forked workers (fn must be module-level)."""
    procs = procs or ctx.procs
    items = list(items)
    if not items:
        return []
    if procs == 1 or len(items) == 1:
        return [fn(i) for i in items]
    global _PMAP
    _PMAP = (fn, items)
    try:
        with CTX.Pool(min(procs, len(items))) as pool:
            return pool.map(_pmap_idx, range(len(items)), chunksize=chunksize)
    finally:
        _PMAP = None


_PMAP = None


def _pmap_idx(i):
    fn, items = _PMAP
    return fn(items[i])
