"""File-system effect interposer + crash injector (child process only).

While `ctl.active`, every main-process file-system effect is numbered:
  open-for-write (truncating or appending)  -> 'open'
  the buffered content reaching the file + close -> 'commit' (crash variants: only a prefix of `cut` bytes is on disk)
  os.remove/unlink, os.rmdir, os.mkdir (each directory os.makedirs creates is one effect), os.rename/replace, shutil.move, shutil.copyfile
In a dry run the effects are logged; in a crash run the process dies with os._exit(137) immediately *before*
effect number `crash_at` (for a 'commit' effect: after writing the first `cut` bytes of the content).
Writes are held in memory until close, which is what buffered text/binary files do for the small files
infretis writes; this makes 'how many bytes had reached the disk' an explicit, generated quantity.
"""

from __future__ import annotations

import builtins
import os
import shutil


class Control:
    def __init__(self, root, crash_at=None, cut=0):
        self.root = os.path.abspath(root)
        self.crash_at = crash_at
        self.cut = cut
        self.active = False
        self.idx = 0
        self.log = []
        self.nested = 0

    def rel(self, path):
        p = os.path.abspath(os.fspath(path))
        return os.path.relpath(p, self.root) if p.startswith(self.root) else None

    def effect(self, kind, path, size=None):
        """Number an effect. Returns True if the process must die here (caller handles 'commit')."""
        if not self.active or self.nested:
            return False
        r = self.rel(path)
        if r is None:
            return False
        i = self.idx
        self.idx += 1
        self.log.append((i, kind, r, size))
        if self.crash_at is not None and i == self.crash_at:
            if kind == "commit":
                return True
            os._exit(137)
        return False


class PFile:
    def __init__(self, ctl, real_open, path, mode, args, kw):
        self.ctl, self.path, self.mode = ctl, path, mode
        ctl.effect("open", path)
        self.f = real_open(path, mode, *args, **kw)  # truncates / creates now, as the real open does
        self.buf = []
        self.closed = False

    def write(self, data):
        self.buf.append(data)
        return len(data)

    def writelines(self, lines):
        for ln in lines:
            self.write(ln)

    def flush(self):
        pass

    def fileno(self):
        return self.f.fileno()

    def close(self):
        if self.closed:
            return
        self.closed = True
        data = (b"" if "b" in self.mode else "").join(self.buf)
        die = self.ctl.effect("commit", self.path, size=len(data))
        if die:
            self.f.write(data[: self.ctl.cut])
            self.f.flush()
            os._exit(137)
        self.f.write(data)
        self.f.close()

    def __enter__(self):
        return self

    def __exit__(self, *a):
        self.close()

    def __getattr__(self, name):
        return getattr(self.f, name)


def install(ctl):
    real_open = builtins.open

    def popen(path, mode="r", *args, **kw):
        if ctl.active and not ctl.nested and isinstance(path, (str, os.PathLike)) and any(m in mode for m in "wax+") and ctl.rel(path) is not None:
            return PFile(ctl, real_open, path, mode, args, kw)
        return real_open(path, mode, *args, **kw)

    builtins.open = popen
    import io

    io.open = popen

    def wrap1(mod, name, kind):
        real = getattr(mod, name)

        def f(path, *a, **k):
            ctl.effect(kind, path)
            ctl.nested += 1
            try:
                return real(path, *a, **k)
            finally:
                ctl.nested -= 1

        setattr(mod, name, f)

    def wrap2(mod, name, kind):
        real = getattr(mod, name)

        def f(src, dst, *a, **k):
            ctl.effect(kind, dst)
            ctl.nested += 1
            try:
                return real(src, dst, *a, **k)
            finally:
                ctl.nested -= 1

        setattr(mod, name, f)

    for name in ("remove", "unlink", "rmdir"):
        wrap1(os, name, name)
    # directories: every single mkdir is an effect (os.makedirs creates a chain of them and can die in between)
    real_mkdir = os.mkdir

    def mkdir(path, *a, **k):
        if ctl.nested == 0:
            ctl.effect("mkdir", path)
        return real_mkdir(path, *a, **k)

    os.mkdir = mkdir
    for name in ("rename", "replace"):
        wrap2(os, name, name)
    wrap2(shutil, "move", "move")
    wrap2(shutil, "copyfile", "copyfile")
    return ctl
