"""Scheduler driver: run infretis' real scheduler() with a deterministic in-process runner.

* `scheduler(config)` from /repo runs unmodified; `infretis.scheduler.setup_runner` is rebound
  (in the forked child only) to return (FakeRunner, FakeFutures).
* The process boundary of production is preserved: md_items are pickled on submit and on result.
* `as_completed` executes `run_md` on the in-flight unit chosen by the generated schedule.
* Recorders are wrappers installed at run time around REPEX_state methods (no source hook).
* A history = list of segments; every segment (first start or restart) is a forked process.
"""

from __future__ import annotations

import copy
import hashlib
import importlib.util  # noqa: F401
import json
import logging
import os
import pickle
import shutil

import numpy as np

from vlib import isolate

# import infretis once in the parent so that forked children inherit the loaded modules
import infretis.scheduler  # noqa: E402,F401
import infretis.setup  # noqa: E402,F401
import infretis.classes.repex  # noqa: E402,F401
import infretis.core.tis  # noqa: E402,F401

HERE = os.path.dirname(os.path.abspath(__file__))


class Killed(Exception):
    """The simulated main process dies here (between two steps)."""


# ----------------------------------------------------------------------------
# run directories
# ----------------------------------------------------------------------------
def lattice_spec(
    n=4, moves=None, workers=1, steps=20, seed=1, cap=None, wall=-1, n_jumps=2, maxlength=400,
    allowmaxlength=False, delete_old=False, delete_old_all=False, subcycles=1, screen=0,
    engine="lattice", ensemble_engines=None, extra_engines=None, zeroswap=None, origin=0.0, lm1=None, keep_side=False, pattern=False, quantis=False, int_toml=False,
    load_dir=None, data_dir=None,
):
    moves = list(moves) if moves else ["sh"] * n
    return dict(
        origin=origin, lm1=lm1, keep_side=keep_side, pattern=pattern, quantis=quantis, int_toml=int_toml, load_dir=load_dir, data_dir=data_dir,
        n=n, moves=moves, workers=workers, steps=steps, seed=seed, cap=cap, wall=wall, n_jumps=n_jumps,
        maxlength=maxlength, allowmaxlength=allowmaxlength, delete_old=delete_old,
        delete_old_all=delete_old_all, subcycles=subcycles, screen=screen, engine=engine,
        ensemble_engines=ensemble_engines, extra_engines=extra_engines, zeroswap=zeroswap,
    )


def lattice_interfaces(n):
    return [k + 0.5 for k in range(n)]


def lattice_config(spec):
    n = spec["n"]
    tis_set = {
        "maxlength": spec["maxlength"],
        "allowmaxlength": spec["allowmaxlength"],
        "zero_momentum": False,
        "n_jumps": spec["n_jumps"],
    }
    origin = float(spec.get("origin", 0.0) or 0.0)
    if spec.get("cap") is not None:
        tis_set["interface_cap"] = spec["cap"] - origin
    if spec.get("lm1") is not None:  # the [0-] ensemble is bounded on the left by lambda_-1 (the wall must lie below it)
        tis_set["lambda_minus_one"] = spec["lm1"] - origin
    eng = {
        "class": "LatticeEngine",
        "module": "latticeeng.py",
        "wall": spec["wall"],
        "timestep": 1.0,
        "subcycles": spec["subcycles"],
        "temperature": 1.0,
    }
    if spec.get("keep_side"):
        eng["side_files"] = True
    cfg = {
        "runner": {"workers": spec["workers"]},
        "simulation": {
            "interfaces": [x - origin for x in lattice_interfaces(n)],
            "steps": spec["steps"],
            "seed": spec["seed"],
            "load_dir": spec.get("load_dir") or "load",
            "shooting_moves": spec["moves"],
            "tis_set": tis_set,
        },
        "engine": eng,
        "orderparameter": {"class": "LatticeOP", "module": "latticeeng.py", "origin": origin},
        "output": {
            "data_dir": spec.get("data_dir") or "./",
            "screen": spec["screen"],
            "pattern": bool(spec.get("pattern", False)),
            "delete_old": spec["delete_old"],
            "delete_old_all": spec["delete_old_all"],
        },
    }
    if spec.get("keep_side"):
        cfg["output"]["keep_traj_fnames"] = [".side"]
    if spec.get("quantis"):  # QuanTIS zero swaps: [0-] runs on its own engine section
        cfg["simulation"]["tis_set"]["quantis"] = True
        cfg["engine0"] = dict(eng)
    if spec.get("int_toml"):
        # values a user writes without a decimal point arrive as integers (TOML keeps the type): interfaces, cap, lambda_-1
        as_int = lambda x: int(x) if isinstance(x, float) and x == int(x) else x  # noqa: E731
        cfg["simulation"]["interfaces"] = [as_int(x) for x in cfg["simulation"]["interfaces"]]
        for key in ("interface_cap", "lambda_minus_one"):
            if key in tis_set:
                tis_set[key] = as_int(tis_set[key])
    if spec.get("seed") is None:
        del cfg["simulation"]["seed"]
    if spec.get("ensemble_engines"):
        cfg["simulation"]["ensemble_engines"] = spec["ensemble_engines"]
        for name in spec.get("extra_engines") or []:
            cfg[name] = dict(eng)
    return cfg


def lattice_start_orders(n):
    """[0-]: 1,0,1 ; [k+]: 0,1,..,k+1,..,1,0 (crosses lambda_k = k+1/2)."""
    paths = [[1, 0, 1]]
    for k in range(n - 1):
        up = list(range(0, k + 2))
        paths.append(up + up[-2::-1])
    return paths


def write_load_path(load_dir, number, orders, fname="path.lat", origin=0.0):
    pdir = os.path.join(load_dir, str(number))
    os.makedirs(os.path.join(pdir, "accepted"), exist_ok=True)
    with open(os.path.join(pdir, "accepted", fname), "w") as fh:
        for x in orders:
            fh.write(f"{int(x)}\n")
    with open(os.path.join(pdir, "traj.txt"), "w") as fh:
        fh.write("# Cycle: 0, status: ACC\n")
        fh.write("#     Step              Filename       index    vel\n")
        for i in range(len(orders)):
            fh.write(f"{i:>10}  {fname:>20s}  {i:>10}  {1:>5}\n")
    with open(os.path.join(pdir, "order.txt"), "w") as fh:
        fh.write("# Cycle: 0, status: ACC, move: ('ld', 0, 0, 0)\n")
        fh.write("#     Time       Orderp\n")
        for i, x in enumerate(orders):
            fh.write(f"{i:>10d} {float(x) - origin:>12.6f}\n")
    with open(os.path.join(pdir, "energy.txt"), "w") as fh:  # the lattice walk has no energies: zeros (QuanTIS needs some)
        fh.write("# Cycle: 0, status: ACC, move: ('ld', 0, 0, 0)\n")
        fh.write("#     Time      Potential        Kinetic\n")
        for i in range(len(orders)):
            fh.write(f"{i:>10d} {0.0:>14.6f} {0.0:>14.6f}\n")


def make_rundir(spec, root=None):
    import tomli_w

    d = isolate.mkscratch("sim_") if root is None else root
    with open(os.path.join(d, "infretis.toml"), "wb") as fh:
        tomli_w.dump(lattice_config(spec), fh)
    shutil.copy(os.path.join(HERE, "engines", "latticeeng.py"), os.path.join(d, "latticeeng.py"))
    starts = lattice_start_orders(spec["n"])
    if spec.get("full_start"):
        # every plus path climbs to the top level (valid in all plus ensembles) and dwells at its own level for its own time:
        # one coupled block of unequal high-acceptance weights from the first step on
        n = spec["n"]
        for k in range(n - 1):
            up = list(range(0, n))
            starts[k + 1] = up[: k + 2] + [k, k + 1] * (k + 1) + up[k + 2 :] + up[-2::-1]
    for i, orders in enumerate(starts):
        write_load_path(os.path.join(d, spec.get("load_dir") or "load"), i, orders, origin=float(spec.get("origin", 0.0) or 0.0))
    if spec.get("data_dir"):  # the directory for the data file is the user's to provide
        os.makedirs(os.path.join(d, spec["data_dir"]), exist_ok=True)
    return d


ORDERP_ROUND = '''"""Order parameter for the TurtleMD double well: x of particle 0, rounded to the six decimals of order.txt."""
from infretis.classes.orderparameter import OrderParameter


class PositionXRounded(OrderParameter):
    def __init__(self, index=(0, 0), periodic=False):
        super().__init__(description="x rounded to 6 decimals", velocity=False)
        self.index = index

    def calculate(self, system):
        return [round(float(system.pos[self.index[0]][self.index[1]]), 6)]
'''


def make_rundir_turtlemd(spec):
    """Run directory for the TurtleMD double-well example (8 interfaces, initial paths from the repository's examples)."""
    import tomli
    import tomli_w

    repo = os.environ.get("VERIF_REPO", "/repo")
    ex = os.path.join(repo, "examples", "turtlemd", "double_well")
    d = isolate.mkscratch("tmd_")
    shutil.copytree(os.path.join(ex, "load_copy"), os.path.join(d, "load"))
    with open(os.path.join(repo, "test", "simulations", "data", "wf.toml"), "rb") as fh:
        cfg = tomli.load(fh)
    cfg["runner"] = {"workers": 1}
    cfg["simulation"]["steps"] = spec["steps"]
    cfg["simulation"]["seed"] = spec["seed"]
    cfg["simulation"]["shooting_moves"] = spec["moves"]
    cfg["simulation"]["tis_set"]["allowmaxlength"] = spec["allowmaxlength"]
    cfg["simulation"]["tis_set"]["n_jumps"] = spec["n_jumps"]
    cfg["simulation"]["tis_set"]["maxlength"] = spec["maxlength"]
    if spec.get("cap") is not None:
        cfg["simulation"]["tis_set"]["interface_cap"] = spec["cap"]
    if spec.get("interfaces"):
        # another interface set for the same well; the first paths of load_copy are valid for it (path k crosses its interface)
        cfg["simulation"]["interfaces"] = list(spec["interfaces"])
        for k in range(len(spec["interfaces"]), 8):
            shutil.rmtree(os.path.join(d, "load", str(k)), ignore_errors=True)
    if spec.get("two_engines"):
        # multi-engine layout (examples/gromacs/H2_multi_engine): the plus ensembles list two engines, moves use the first
        import copy

        cfg["engine2"] = copy.deepcopy(cfg["engine"])
        cfg["engine2"]["temperature"] = 0.25
        cfg["engine2"]["integrator"]["settings"]["beta"] = 4.0
        cfg["simulation"]["ensemble_engines"] = [["engine"], ["engine"]] + [["engine", "engine2"] for _ in range(6)]
    cfg["orderparameter"] = {"class": "PositionXRounded", "module": "orderp_round.py", "index": [0, 0], "periodic": False}
    cfg["output"].update({"screen": 0, "pattern": False, "delete_old": spec["delete_old"], "delete_old_all": spec["delete_old_all"]})
    with open(os.path.join(d, "orderp_round.py"), "w") as fh:
        fh.write(ORDERP_ROUND)
    with open(os.path.join(d, "infretis.toml"), "wb") as fh:
        tomli_w.dump(cfg, fh)
    return d


# ----------------------------------------------------------------------------
# schedule policies
# ----------------------------------------------------------------------------
class Policy:
    """Chooses which in-flight job completes next."""

    def __init__(self, kind="random", seed=0, script=None):
        self.kind, self.script = kind, list(script or [])
        self.rng = np.random.default_rng(seed)
        self.used = []

    def choose(self, n):
        if self.script:
            i = self.script.pop(0) % n
        elif self.kind == "oldest":
            i = 0
        elif self.kind == "newest":
            i = n - 1
        elif self.kind == "straggler":  # job 0 finishes only when alone or rarely
            i = int(self.rng.integers(1, n)) if n > 1 and self.rng.random() < 0.9 else 0
        else:
            i = int(self.rng.integers(0, n))
        self.used.append(i)
        return i


# ----------------------------------------------------------------------------
# runner / futures
# ----------------------------------------------------------------------------
class FakeFuture:
    def __init__(self, unit, job):
        self.unit, self.job, self._res = unit, job, None

    def result(self):
        return self._res

    def done(self):
        return True


class Driver:
    """Holds the per-process driver state (policy, kill point, observer)."""

    def __init__(self, policy, kill_after=None, observer=None, run_md=None):
        self.policy, self.kill_after, self.obs = policy, kill_after, observer
        self.inflight = []
        self.completed = 0
        self.submitted = 0
        self.stopped = False
        self.run_md = run_md
        self.results_consumed = 0
        self.late_handover = False
        self.pending = []

    def hand_over(self):
        """Serialise the jobs that were submitted by reference (late hand-over) now."""
        for fut, ref, at_submit in self.pending:
            fut.unit = pickle.loads(pickle.dumps(ref))
            was = pickle.loads(at_submit)
            if self.obs and self.obs.flags.get("C07"):
                def ident(u):
                    pk = u.get("picked", {})
                    sid = lambda g: (int(g.bit_generator.state["state"]["state"]), int(g.bit_generator.state["state"]["inc"]))  # noqa: E731
                    return (u.get("_vjob"), sorted(pk), [(sid(v["ens"]["rgen"]), sid(v["rgen-eng"])) for _, v in sorted(pk.items())])

                a, b = ident(was), ident(fut.unit)
                if a != b:
                    self.obs.bad("C07:job-changed-between-submission-and-hand-over-to-the-worker", f"submitted job {a[0]} ensembles {a[1]}; the worker receives job {b[0]} ensembles {b[1]}" + ("" if a[2] == b[2] else " with other streams"))
        self.pending = []


class FakeRunner:
    """The public interface of infretis.asyncrunner.aiorunner (submit_work, n_workers, stop, start, set_task)."""

    def __init__(self, drv, state=None):
        self.drv = drv
        self._n = getattr(state, "workers", None)

    def n_workers(self):
        return self._n

    def start(self):
        pass

    def set_task(self, task_f):
        pass

    def submit_work(self, md_items):
        self.drv.hand_over()
        fut = FakeFuture(None, md_items.get("_vjob"))
        if self.drv.late_handover:
            # the real runner takes the job by reference and serialises it for the worker process off the main thread
            # (its queue poll + the process pool's feeder thread), i.e. possibly only after the scheduler has gone on:
            # here at the latest point the program allows - the next time the scheduler talks to the runner
            self.drv.pending.append((fut, md_items, pickle.dumps(md_items)))
        else:
            fut.unit = pickle.loads(pickle.dumps(md_items))  # process boundary
        self.drv.submitted += 1
        if self.drv.obs:
            self.drv.obs.on_submit(md_items)
        return fut

    def stop(self):
        self.drv.hand_over()
        self.drv.stopped = True


class FakeFutures:
    def __init__(self, drv):
        self.drv = drv

    def add(self, fut):
        self.drv.inflight.append(fut)

    def as_completed(self):
        drv = self.drv
        drv.hand_over()
        if not drv.inflight:
            return None
        if drv.kill_after is not None and drv.completed >= drv.kill_after:
            raise Killed()
        i = drv.policy.choose(len(drv.inflight))
        fut = drv.inflight.pop(i)
        if drv.obs:
            drv.obs.before_run(fut.unit)
        res = drv.run_md(fut.unit)
        if drv.obs:
            drv.obs.after_run(res)
        fut._res = pickle.loads(pickle.dumps(res))  # process boundary
        drv.completed += 1
        return fut


# ----------------------------------------------------------------------------
# observer: invariants over the history (C03, C04, C05, C07, C17, cache clause of C02)
# ----------------------------------------------------------------------------
def rng_id(gen):
    ss = gen.bit_generator._seed_seq
    st = gen.bit_generator.state
    return (str(ss.entropy), tuple(int(x) for x in ss.spawn_key), int(st["state"]["state"]), int(st["state"]["inc"]))


class Observer:
    def __init__(self, flags, carry):
        self.flags = flags
        self.viol = []  # (signature, message)
        self.stats = {}
        self.carry = carry  # model state carried across process lifetimes
        self.jobs = {}  # job id -> info, in flight
        self.njobs = carry.get("njobs", 0)
        self.state = None
        self.events = []
        self.first_issued = []
        self.prep_count = 0
        self.treat_count = 0
        self.trace = []

    # -- helpers
    def bad(self, sig, msg=""):
        if len(self.viol) < 20:
            self.viol.append((sig, str(msg)[:1500]))

    def stat(self, key, n=1):
        self.stats[key] = self.stats.get(key, 0) + n

    def busy_ens(self, exclude=None):
        out = set()
        for j, info in self.jobs.items():
            if j != exclude:
                out |= set(info["slots"])
        return out

    # -- wrappers call these
    def before_prep(self, state, md_items):
        self.state = state
        if self.flags.get("C14"):
            self.c14_snapshot_initial(state)
        self._locks_before = state._locks.copy()
        if self.flags.get("C05") and state.toinitiate < 0 or True:
            self.check_pickable(state)

    def check_pickable(self, state):
        """C05(1): the idle block admits a perfect matching; probabilities are usable."""
        from vlib.oracles import perm as oracle

        if not self.flags.get("C05"):
            return
        locks = state._locks
        idx = [i for i in range(state.n) if not locks[i]]
        if not idx:
            self.bad("C05:no-idle-ensemble-at-pick", f"locks={locks.tolist()}")
            return
        W = np.abs(state.state)
        block = [[float(W[i, j]) for j in idx] for i in idx]
        per = oracle.permanent([[1 if x != 0 else 0 for x in r] for r in block])
        if per == 0:
            self.bad("C05:idle-block-has-no-perfect-matching", f"W={W.tolist()} locks={locks.tolist()}")
            return
        try:
            prob = state.prob.astype("float64")
        except Exception as exc:  # noqa: BLE001
            self.bad("C05:prob-raises:" + type(exc).__name__, f"{exc!r} W={W.tolist()} locks={locks.tolist()}")
            return
        if not np.all(np.isfinite(prob)) or prob.min() < 0 or not np.isclose(prob.sum(), len(idx), atol=1e-6):
            self.bad("C05:prob-not-a-distribution", f"sum={prob.sum()} min={prob.min()} W={W.tolist()} locks={locks.tolist()}")

    def after_prep(self, state, md_items):
        self.prep_count += 1
        job = self.njobs
        self.njobs += 1
        md_items["_vjob"] = job
        off = state._offset
        ens_nums = list(md_items["ens_nums"])
        slots = [e + off for e in ens_nums]
        picked = md_items["picked"]
        paths = [picked[e]["traj"].path_number for e in ens_nums]
        info = {
            "job": job, "ens": ens_nums, "slots": slots, "paths": paths, "pin": md_items["pin"],
            "w_folder": md_items["w_folder"],
            "eng": sorted((name, idx) for e in ens_nums for name, idx in picked[e]["eng_idx"].items()),
            "rng": [rng_id(picked[e]["ens"]["rgen"]) for e in ens_nums],
            "rng_eng": [rng_id(picked[e]["rgen-eng"]) for e in ens_nums],
            "sched_rng": rng_id(state.rgen),
            "cstep": state.cstep,
        }
        self.jobs[job] = info
        self.first_issued.append((ens_nums, [str(p) for p in paths]))
        self.trace.append(("prep", job, tuple(ens_nums), tuple(paths), md_items["pin"]))
        self.stat("jobs")
        if len(self.jobs) >= 2:
            self.stat("events_with>=2_in_flight")
        if len(ens_nums) == 2:
            self.stat("zero_swap_jobs")
        if self.flags.get("C03"):
            self.c03_after_prep(state, md_items, info)
        if self.flags.get("C07"):
            self.carry.setdefault("streams", []).append(
                {"job": job, "ens": ens_nums, "paths": paths, "rng": info["rng"], "rng_eng": info["rng_eng"],
                 "sched": info["sched_rng"], "lifetime": self.carry.get("lifetime", 0),
                 "reissued": self.prep_count <= len(self.carry.get("locked_at_start", []))}
            )
        self.check_cache(state, "after-pick")

    def c03_after_prep(self, state, md_items, info):
        off = state._offset
        # (1) disjointness
        others = [i for j, i in self.jobs.items() if j != info["job"]]
        for o in others:
            if set(o["slots"]) & set(info["slots"]):
                self.bad("C03:ensemble-shared-by-two-jobs", f"{o} vs {info}")
            if set(o["paths"]) & set(info["paths"]):
                self.bad("C03:path-shared-by-two-jobs", f"{o} vs {info}")
            if set(o["eng"]) & set(info["eng"]):
                self.bad("C03:engine-instance-shared", f"{o['eng']} vs {info['eng']}")
            if o["pin"] == info["pin"] or o["w_folder"] == info["w_folder"]:
                self.bad("C03:worker-dir-shared", f"{o['pin']},{o['w_folder']} vs {info['pin']},{info['w_folder']}")
        self.c03_locks(state, "after-pick")
        # (3) path handed out sits in the job's slot with non-zero weight
        for e, s, p in zip(info["ens"], info["slots"], info["paths"]):
            if state._trajs[s].path_number != p:
                self.bad("C03:picked-path-not-in-its-slot", f"slot {s} holds {state._trajs[s].path_number}, job got {p}")
            if state.state[s, s] == 0:
                self.bad("C03:picked-path-has-zero-weight-in-ensemble", f"slot {s} path {p} row {state.state[s].tolist()}")
            w = md_items["picked"][e]["traj"].weights
            if w is not None:
                full = ([0] * off + list(w)) if e >= 0 else (list(w) + [0] * (state.n - off))
                if full[s] == 0:
                    self.bad("C03:picked-path-weight-vector-zero", f"ens {e} path {p} weights {w}")
        # (4) engines / directories
        from infretis.core import tis

        for name, idx in info["eng"]:
            if name not in tis.ENGINES or idx >= len(tis.ENGINES[name]) or idx < 0:
                self.bad("C03:engine-index-out-of-range", f"{name}[{idx}] of {len(tis.ENGINES.get(name, []))}")
            elif state.engine_occ[name][idx] != info["pin"]:
                self.bad("C03:engine_occ-disagrees", f"{name}[{idx}] occ={state.engine_occ[name][idx]} pin={info['pin']}")
        if os.path.abspath(info["w_folder"]) != os.path.join(os.getcwd(), f"worker{info['pin']}"):
            self.bad("C03:worker-dir-not-worker<pin>", info["w_folder"])
        if not os.path.isdir(info["w_folder"]):
            self.bad("C03:worker-dir-missing", info["w_folder"])
        # (5) zero swap
        if len(info["ens"]) == 2:
            if sorted(info["ens"]) != [-1, 0]:
                self.bad("C03:two-ensemble-job-not-zero-swap", info["ens"])
            if self._locks_before[off - 1] or self._locks_before[off]:
                # a re-issued recorded job is exempt: both are idle right after a restart anyway
                self.bad("C03:zero-swap-started-while-partner-busy", f"locks before pick {self._locks_before.tolist()}")

    def c03_locks(self, state, when):
        want = self.busy_ens()
        have = {i for i in range(state.n - 1) if state._locks[i] == 1}
        if want != have:
            self.bad("C03:busy-marks-differ-from-in-flight-jobs", f"{when}: marked {sorted(have)} in-flight {sorted(want)}")
        if state._locks[-1] != 1:
            self.bad("C03:ghost-unlocked", when)

    def check_cache(self, state, when):
        if not self.flags.get("C02cache") or state._last_prob is None:
            return
        if all(state._locks[:-1]):
            return
        fresh = state.inf_retis(abs(state.state), state._locks)
        if not np.allclose(np.asarray(fresh, float), np.asarray(state._last_prob, float), atol=1e-12):
            self.bad("C02:stale-probability-cache", f"{when}: cached {np.asarray(state._last_prob, float).tolist()} fresh {np.asarray(fresh, float).tolist()}")

    def on_submit(self, md_items):
        self.stat("submitted")

    def before_run(self, unit):
        self._glob = (np.random.get_state()[1][:4].tolist(), __import__("random").getstate()[1][:4])

    def after_run(self, res):
        glob = (np.random.get_state()[1][:4].tolist(), __import__("random").getstate()[1][:4])
        if self.flags.get("C07") and glob != self._glob:
            self.bad("C07:global-rng-consumed-by-move", f"job {res.get('_vjob')} moves {res.get('moves')}")
        self.stat("status:" + str(res.get("status")))

    def before_treat(self, state, md_items):
        self.state = state
        job = md_items.get("_vjob")
        self._t_job = job
        self._frac_before = {pn: d["frac"].copy() for pn, d in state.traj_data.items()}
        self._live_before = list(state.live_paths())
        self._traj_num_before = state.config["current"]["traj_num"]
        self._archived = {}
        self._data_size = os.path.getsize(state.data_file) if os.path.exists(state.data_file) else 0
        if job not in self.jobs:
            self.bad("C17:result-consumed-for-unknown-or-finished-job", f"job {job}")

    def on_archive(self, state, pn_archive):
        for pn in pn_archive:
            self._archived[pn] = state.traj_data[pn]["frac"].copy()

    def after_treat(self, state, md_items):
        self.treat_count += 1
        job = self._t_job
        info = self.jobs.pop(job, None)
        status = md_items.get("status")
        acc = status == "ACC"
        self.stat("treat")
        self.stat("accepted" if acc else "rejected")
        self.trace.append(("treat", job, status, tuple(state.live_paths())))
        busy = self.busy_ens()
        if busy:
            self.stat("steps_with_busy_column")
        nreal = state.n - 1
        # ---------------- C04
        if self.flags.get("C04"):
            idle_cols = [c for c in range(nreal) if c not in busy]
            ic = self.carry.setdefault("idle_count", [0] * nreal)
            for c in idle_cols:
                ic[c] += 1
            delta = np.zeros(state.n, dtype="longdouble")
            live = state.live_paths()
            locked = set(state.locked_paths())
            for pn, d in state.traj_data.items():
                before = self._frac_before.get(pn)
                if pn in live and pn not in self._live_before:
                    # a path created in this step starts from nothing (the table is process-wide: an entry with the same
                    # number may be left over from another simulation that ran earlier in the interpreter)
                    before = None
                dl = d["frac"] - before if before is not None else d["frac"].copy()
                if np.any(dl != 0):
                    if pn not in live:
                        self.bad("C04:weight-credited-to-non-live-path", f"path {pn} delta {dl.tolist()}")
                    elif pn in locked:
                        self.bad("C04:weight-credited-to-busy-path", f"path {pn} delta {dl.tolist()}")
                    else:
                        row = state.state[live.index(pn)]
                        for c in range(state.n):
                            if dl[c] != 0 and row[c] == 0:
                                self.bad("C04:weight-credited-where-path-weight-is-zero", f"path {pn} col {c} delta {dl[c]} row {row.tolist()}")
                delta += dl
            for pn, fr in self._archived.items():
                before = self._frac_before.get(pn)
                dl = fr - before
                if np.any(dl != 0):
                    self.bad("C04:weight-credited-to-replaced-path", f"path {pn} delta {dl.tolist()}")
                delta += dl
            for c in range(nreal):
                want = 1.0 if c in idle_cols else 0.0
                if abs(float(delta[c]) - want) > 1e-12:
                    self.bad("C04:column-increment-not-one-or-zero", f"col {c} {'idle' if want else 'busy'}: increment {float(delta[c])!r} (job {job}, status {status})")
            if delta[-1] != 0:
                self.bad("C04:ghost-column-credited", float(delta[-1]))
            # rows appended to the data file in this step
            rows = self.read_rows(state.data_file, self._data_size)
            want_rows = list(info["paths"]) if (acc and info) else []
            if [r[0] for r in rows] != want_rows:
                self.bad("C04:data-rows-written-differ-from-replaced-paths", f"status {status}: rows {[r[0] for r in rows]} expected {want_rows}")
            seen = self.carry.setdefault("archived", [])
            for r in rows:
                if r[0] in seen:
                    self.bad("C04:path-written-twice", f"path {r[0]}")
                seen.append(r[0])
                if r[0] in live:
                    self.bad("C04:live-path-written-to-data-file", f"path {r[0]}")
            if acc:
                self.stat("replacements")
        # ---------------- C05
        if self.flags.get("C05"):
            for s in range(nreal):
                if not state._locks[s] and state.state[s, s] == 0:
                    self.bad("C05:idle-path-in-ensemble-with-zero-weight", f"slot {s} path {state._trajs[s].path_number} row {state.state[s].tolist()}")
            live = state.live_paths()
            if len(set(live)) != len(live):
                self.bad("C05:live-paths-not-distinct", live)
            tn = state.config["current"]["traj_num"]
            new = [p for p in live if p not in self._live_before]
            for p in new:
                if p < self._traj_num_before or p >= tn:
                    self.bad("C05:path-number-reused-or-not-increasing", f"new {p} traj_num before {self._traj_num_before} after {tn}")
            mx = self.carry.get("max_path", -1)
            for p in new:
                if p <= mx:
                    self.bad("C05:path-number-reused", f"{p} <= max so far {mx}")
            self.carry["max_path"] = max([mx] + new)
            if sorted(live) != sorted(self._live_before) and not acc:
                self.bad("C05:live-set-changed-without-acceptance", f"{self._live_before}->{live}")
        if self.flags.get("C03"):
            self.c03_locks(state, "after-treat")
            rec_locked = [(tuple(l[0]), tuple(l[1])) for l in state.locked]
            want_locked = sorted((tuple(i["ens"]), tuple(str(p) for p in i["paths"])) for i in self.jobs.values())
            if sorted(rec_locked) != want_locked:
                self.stat("restart-record-differs-from-in-flight")  # judged under C06/C08, only counted here
        if self.flags.get("C14"):
            self.c14_after_treat(state, info, acc)
        self.check_cache(state, "after-treat")
        self.carry["cstep"] = state.cstep
        self.carry["inflight_at_last_step"] = [
            {"job": j, "ens": list(i["ens"]), "paths": list(i["paths"])} for j, i in sorted(self.jobs.items())
        ]
        self.carry["frac"] = {int(pn): [str(x) for x in d["frac"]] for pn, d in state.traj_data.items()}

    # ---------------- C14: files of live paths / restart file / initial paths / deletion lag
    def c14_snapshot_initial(self, state):
        if "init_digest" in self.carry:
            return
        load_dir = state.config["simulation"]["load_dir"]
        dig = {}
        for pn in range(state.n - 1):
            dig.update({f"{pn}/{k}": v for k, v in tree_digest(os.path.join(load_dir, str(pn))).items()})
        self.carry["init_digest"] = dig
        self.carry["replaced"] = {}
        self.carry["repl_events"] = 0

    def c14_after_treat(self, state, info, acc):
        load_dir = state.config["simulation"]["load_dir"]
        nreal = state.n - 1
        # live paths: every referenced file exists, no file shared by two live paths
        owner = {}
        kept_ext = list(state.config["output"].get("keep_traj_fnames", []) or [])
        for t in state._trajs[:-1]:
            for a in t.adress:
                if not os.path.isfile(a):
                    self.bad("C14:file-of-live-path-missing", f"path {t.path_number}: {a}")
                # files the configuration asks to keep along with the trajectory files (the plug-in engine writes one per file)
                if kept_ext and t.path_number >= nreal and "_traj" in os.path.basename(a):  # (dumped single frames have no companion)
                    for ext in kept_ext:
                        if not os.path.isfile(os.path.splitext(a)[0] + ext):
                            self.bad("C14:kept-companion-file-of-live-path-missing", f"path {t.path_number}: {os.path.splitext(a)[0] + ext}")
                if a in owner and owner[a] != t.path_number:
                    self.bad("C14:file-shared-by-two-live-paths", f"{a}: {owner[a]} and {t.path_number}")
                owner[a] = t.path_number
                if not os.path.abspath(a).startswith(os.path.abspath(load_dir) + os.sep):
                    self.bad("C14:live-path-file-outside-load-dir", a)
        # the restart file on disk: every active path is loadable from its own directory
        try:
            import tomli

            with open("restart.toml", "rb") as fh:
                cfg = tomli.load(fh)
            # ... and so is the input path of every job the restart file lists as in flight (it is re-issued from disk)
            refs = [("active", pn) for pn in cfg["current"]["active"]]
            refs += [("in-flight-job", pn) for entry in cfg["current"].get("locked", []) for pn in entry[1]]
            for kind, pn in refs:
                pdir = os.path.join(load_dir, str(pn))
                tt = os.path.join(pdir, "traj.txt")
                if not os.path.isfile(tt) or not os.path.isfile(os.path.join(pdir, "order.txt")):
                    self.bad(f"C14:{kind}-path-of-restart-file-lost-its-tables", f"path {pn}")
                    continue
                for line in open(tt):
                    if line.startswith("#"):
                        continue
                    f = os.path.join(pdir, "accepted", line.split()[1])
                    if not os.path.isfile(f):
                        self.bad(f"C14:{kind}-path-of-restart-file-lost-a-frame-file", f"path {pn}: {f}")
                        break
        except FileNotFoundError:
            pass
        # initial paths untouched
        dig = {}
        for pn in range(nreal):
            dig.update({f"{pn}/{k}": v for k, v in tree_digest(os.path.join(load_dir, str(pn))).items()})
        if dig != self.carry.get("init_digest"):
            self.bad("C14:initial-path-files-changed", f"{sorted(set(dig.items()) ^ set(self.carry.get('init_digest', {}).items()))[:4]}")
        # deletion lag of replaced paths
        rep = self.carry.setdefault("replaced", {})
        if acc and info:
            for pn in info["paths"]:
                if pn >= nreal:  # initial paths are never deleted
                    self.carry["repl_events"] = self.carry.get("repl_events", 0) + 1
                    pdir = os.path.join(load_dir, str(pn), "accepted")
                    files = [os.path.join(pdir, f) for f in os.listdir(pdir)] if os.path.isdir(pdir) else []
                    rep[pn] = {"event": self.carry["repl_events"], "files": files, "gone": None, "lifetime": self.carry.get("lifetime", 0)}
        delete_old = state.config["output"].get("delete_old", False)
        for pn, r in rep.items():
            if r["gone"] is None and r["files"] and not all(os.path.isfile(f) for f in r["files"]):
                r["gone"] = self.carry.get("repl_events", 0)
                lag = r["gone"] - r["event"]
                self.stat("deletions")
                if len(self.jobs) >= 1:
                    self.stat("deletions_while_jobs_in_flight")
                if not delete_old:
                    self.bad("C14:files-deleted-although-delete_old-is-off", f"path {pn}")
                elif lag < nreal - 1:
                    self.bad("C14:replaced-path-deleted-before-the-lag", f"path {pn} replaced at event {r['event']}, files gone after {lag} later replacements (< {nreal - 1})")

    @staticmethod
    def read_rows(data_file, offset=0):
        rows = []
        if not os.path.exists(data_file):
            return rows
        with open(data_file) as fh:
            fh.seek(offset)
            for line in fh:
                if line.startswith("#") or not line.strip():
                    continue
                sp = line.split()
                rows.append((int(sp[0]), sp))
        return rows


# ----------------------------------------------------------------------------
# one process lifetime
# ----------------------------------------------------------------------------
def parse_data_file(path, nintf):
    """-> list of dict(pn, length, maxop, frac[nintf], weight[nintf])."""
    out = []
    with open(path) as fh:
        for line in fh:
            if line.startswith("#") or not line.strip():
                continue
            sp = line.split()
            f = [0.0 if x == "----" else float(x) for x in sp[3 : 3 + nintf]]
            w = [0.0 if x == "----" else float(x) for x in sp[3 + nintf : 3 + 2 * nintf]]
            out.append({"pn": int(sp[0]), "len": int(sp[1]), "maxop": float(sp[2]), "frac": f, "weight": w})
    return out


def tree_digest(root):
    h = {}
    for dp, dn, fn in os.walk(root):
        for f in fn:
            p = os.path.join(dp, f)
            with open(p, "rb") as fh:
                h[os.path.relpath(p, root)] = hashlib.sha1(fh.read()).hexdigest()[:12]
    return h


def _segment_child(seg, flags, carry):
    """Runs inside the forked child with cwd = run directory."""
    import infretis.scheduler as sched
    import infretis.setup as isetup
    from infretis.classes import repex
    from infretis.classes.repex import REPEX_state
    from infretis.core import tis
    from infretis.setup import setup_config

    logging.disable(logging.WARNING)
    isetup.setup_logger = lambda *a, **k: None
    restart = seg.get("restart", False)
    out = {"killed": False, "ended": False, "config_none": False, "viol": [], "stats": {}, "exc": None}
    if restart and (seg.get("steps") is not None or seg.get("workers") is not None):
        import tomli
        import tomli_w

        try:
            with open("restart.toml", "rb") as fh:
                cfg = tomli.load(fh)
            if seg.get("steps") is not None:
                cfg["simulation"]["steps"] = seg["steps"]
            if seg.get("workers") is not None:  # the user restarts on another allocation
                cfg["runner"]["workers"] = seg["workers"]
            with open("restart.toml", "wb") as fh:
                tomli_w.dump(cfg, fh)
        except (tomli.TOMLDecodeError, FileNotFoundError, KeyError):
            pass  # an unreadable restart file is for setup_config to report
    if seg.get("_prelude_dir"):
        # another, unrelated simulation ran to its end earlier in this interpreter (a script or notebook that calls the
        # scheduler several times, like the repository's own end-to-end tests): nothing of it may reach this one
        here = os.getcwd()
        os.chdir(seg["_prelude_dir"])
        try:
            drv0 = Driver(Policy("oldest", 0, None), None, None, tis.run_md)
            o_runner = sched.setup_runner
            sched.setup_runner = lambda state: (FakeRunner(drv0, state), FakeFutures(drv0))
            try:
                sched.scheduler(setup_config("infretis.toml"))
            finally:
                sched.setup_runner = o_runner
        except Exception as exc:  # noqa: BLE001
            out["exc"] = ("prelude", type(exc).__name__, str(exc)[:500])
            return out
        finally:
            os.chdir(here)
    fault = seg.get("fault")
    ctl = None
    if fault:
        from vlib import fsfault

        ctl = fsfault.install(fsfault.Control(os.getcwd(), fault.get("crash_at"), fault.get("cut", 0)))
    try:
        if ctl and fault.get("phase") == "setup":  # a crash while the restart is being prepared (repair of the data file)
            ctl.active = True
        try:
            config = setup_config("restart.toml" if restart else "infretis.toml")
        finally:
            if ctl:
                ctl.active = False
    except Exception as exc:  # noqa: BLE001
        out["exc"] = ("setup_config", type(exc).__name__, str(exc))
        return out
    if config is None:
        out["config_none"] = True
        return out
    carry = dict(carry)
    carry["lifetime"] = carry.get("lifetime", -1) + 1
    carry["locked_at_start"] = [list(x) for x in config["current"].get("locked", [])]
    obs = Observer(flags, carry)
    policy = Policy(seg.get("policy", "random"), seg.get("policy_seed", 0), seg.get("schedule"))
    drv = Driver(policy, seg.get("kill_after"), obs, tis.run_md)
    drv.late_handover = seg.get("handover") == "late"
    out["cstep_start"] = config["current"]["cstep"]
    out["locked_at_start"] = carry["locked_at_start"]

    # ---- install recorders (attribute rebinding, child only)
    o_prep, o_treat, o_archive = REPEX_state.prep_md_items, REPEX_state.treat_output, repex.write_to_pathens

    counts = {"treat": 0, "prep": 0}

    def prep(self, md_items):
        obs.before_prep(self, md_items)
        counts["prep"] += 1
        on = bool(ctl) and fault.get("phase") == "prep" and counts["prep"] == fault["target"]
        if on:
            ctl.active = True
        try:
            res = o_prep(self, md_items)
        finally:
            if on:
                ctl.active = False
        obs.after_prep(self, res)
        return res

    def treat(self, md_items):
        obs.before_treat(self, md_items)
        counts["treat"] += 1
        on = bool(ctl) and fault.get("phase", "treat") == "treat" and counts["treat"] == fault["target"]
        if on:
            ctl.active = True
            out["fault_step_status"] = md_items.get("status")
            out["fault_step_ens"] = list(md_items.get("ens_nums", []))
        try:
            res = o_treat(self, md_items)
        finally:
            if on:
                ctl.active = False
        obs.after_treat(self, res)
        return res

    def archive(state, pn_archive):
        obs.on_archive(state, pn_archive)
        return o_archive(state, pn_archive)

    REPEX_state.prep_md_items = prep
    REPEX_state.treat_output = treat
    repex.write_to_pathens = archive
    sched.setup_runner = lambda state: (FakeRunner(drv, state), FakeFutures(drv))
    if seg.get("zeroswap") is not None:
        o_init = REPEX_state.__init__

        def init(self, *a, **k):
            o_init(self, *a, **k)
            self.zeroswap = seg["zeroswap"]

        REPEX_state.__init__ = init
    try:
        sched.scheduler(config)
        out["ended"] = True
    except Killed:
        out["killed"] = True
    except Exception as exc:  # noqa: BLE001
        import traceback

        out["exc"] = ("scheduler", type(exc).__name__, str(exc)[:500], traceback.format_exc()[-3000:])
    state = obs.state
    out["viol"] = obs.viol
    out["stats"] = obs.stats
    out["prep_count"] = obs.prep_count
    out["treat_count"] = obs.treat_count
    out["first_issued"] = obs.first_issued[: max(1, len(carry["locked_at_start"]))]
    out["issued_all"] = [[list(e), list(p)] for e, p in obs.first_issued]
    out["inflight_at_end"] = [dict(job=i["job"], ens=i["ens"], paths=i["paths"]) for i in obs.jobs.values()]
    out["units_left_in_runner"] = len(drv.inflight)
    out["runner_stopped"] = drv.stopped
    out["schedule_used"] = policy.used
    out["trace"] = obs.trace[-400:]
    if ctl:
        out["fault_log"] = list(ctl.log)
    carry["njobs"] = obs.njobs
    out["carry"] = carry
    if state is not None:
        out["cstep_end"] = state.cstep
        out["tsteps"] = state.tsteps
        try:
            out["live"] = state.live_paths()
            out["locked_mem"] = [[list(l[0]), list(l[1])] for l in state.locked]
        except Exception as exc:  # noqa: BLE001
            # the sampler's own accessors fail on the state the run left behind
            import traceback

            if not out.get("exc"):
                out["exc"] = ("final-state", type(exc).__name__, str(exc)[:500], traceback.format_exc()[-3000:])
    return out


def run_segment(rundir, seg, flags, carry, timeout=300.0):
    return isolate.run_in_fork(_segment_child, (seg, flags, carry), cwd=rundir, timeout=timeout)


def read_restart(rundir):
    import tomli

    p = os.path.join(rundir, "restart.toml")
    if not os.path.exists(p):
        return None
    with open(p, "rb") as fh:
        return tomli.load(fh)


def run_history(spec, segments, flags, keep=False, timeout=300.0, rundir=None):
    """Run a whole history (list of segments; the first starts fresh, the others restart).

    Returns dict(rundir, results=[per segment], viol=[(sig,msg,segment index)])."""
    if rundir is None:
        spec = dict(spec)
        spec["steps"] = segments[0]["steps"]  # the first lifetime starts from infretis.toml
    d = rundir or (make_rundir_turtlemd(spec) if spec.get("engine") == "turtlemd" else make_rundir(spec))
    carry = {}
    results, viol = [], []
    try:
        for k, seg in enumerate(segments):
            seg = dict(seg)
            seg["restart"] = k > 0
            pre = None
            if seg.get("prelude") and spec.get("engine") != "turtlemd":
                pre = seg["_prelude_dir"] = make_rundir(dict(spec, steps=seg["prelude"]["steps"], seed=seg["prelude"]["seed"]))
            try:
                res = run_segment(d, seg, flags, carry, timeout)
            except isolate.ChildTimeout:
                res = {"timeout": True, "viol": [], "stats": {}, "carry": carry}
                results.append(res)
                viol.append(("C05:process-did-not-terminate", f"segment {k} exceeded {timeout}s", k))
                break
            finally:
                if pre:
                    isolate.rmscratch(pre)
            results.append(res)
            carry = res.get("carry", carry)
            for s, m in res["viol"]:
                viol.append((s, m, k))
            if res.get("exc"):
                break
        return {"rundir": d, "results": results, "viol": viol}
    finally:
        if not keep and rundir is None:
            isolate.rmscratch(d)
