"""Runner: tier / seed handling, evidence writer, known findings, replay, exit codes.

Usage:  ./check <ID> [--tier quick|thorough] [--replay FILE]

Exit 0  property held on everything explored (KNOWN-FINDING lines possible)
Exit 1  + line "VIOLATION property=<id> replay=<path>" for a violation not listed
        in known_findings.json
Exit 2  harness error (never reported as a violation)
"""

from __future__ import annotations

import argparse
import hashlib
import importlib
import importlib.util  # noqa: F401  (infretis' factory needs importlib.util bound)
import json
import os
import sys
import time
import traceback
from collections import Counter

if __name__ == "__main__":
    # `python -m vlib.cli`: the checks do `from vlib.cli import Violation, Rec`; without this alias they would get a second
    # copy of the classes, and a Violation raised through ctx.check() would not be the one their replay() catches
    sys.modules.setdefault("vlib.cli", sys.modules["__main__"])

ROOT = os.path.dirname(os.path.dirname(os.path.abspath(__file__)))
KNOWN_FILE = os.path.join(ROOT, "known_findings.json")
# outputs (evidence/, replays/) go to $VERIF_OUT when set (used by the mutation helper)
OUT = os.environ.get("VERIF_OUT") or ROOT
MAX_SAMPLES = 8
MAX_VIOL_PER_SIG = 1


def jsonable(obj):
    """Best-effort conversion of a generated case to plain JSON data."""
    try:
        import numpy as np
    except Exception:  # pragma: no cover
        np = None
    if isinstance(obj, dict):
        return {str(k): jsonable(v) for k, v in obj.items()}
    if isinstance(obj, (list, tuple, set, frozenset)):
        return [jsonable(v) for v in obj]
    if np is not None:
        if isinstance(obj, np.ndarray):
            return jsonable(obj.tolist())
        if isinstance(obj, np.generic):
            return jsonable(obj.item())
    if isinstance(obj, float):
        if obj != obj:
            return "nan"
        if obj in (float("inf"), float("-inf")):
            return "inf" if obj > 0 else "-inf"
        return obj
    if isinstance(obj, (int, str, bool)) or obj is None:
        return obj
    if isinstance(obj, bytes):
        return {"__bytes__": obj.hex()}
    return repr(obj)


def digest(obj) -> str:
    return hashlib.sha1(
        json.dumps(jsonable(obj), sort_keys=True).encode()
    ).hexdigest()[:16]


def load_known(pid):
    """Signatures of recorded (unrepaired) findings for property pid."""
    try:
        with open(KNOWN_FILE) as fh:
            data = json.load(fh)
    except FileNotFoundError:
        return {}
    out = {}
    for f in data.get("findings", []):
        if f.get("property") == pid:
            out[f["signature"]] = f.get("what", "")
    return out


class Violation(Exception):
    """Raised inside a property body: oracle clause failed."""

    def __init__(self, signature, message="", extra=None):
        super().__init__(f"{signature}: {message}")
        self.signature = signature
        self.message = message
        self.extra = extra


class Rec:
    """Picklable record of what a (sub)run covered. Workers fill one each."""

    def __init__(self, pid):
        self.pid = pid
        self.evaluations = 0
        self.nt = set()
        self.classes = Counter()
        self.samples = []
        self.violations = []  # dicts: signature, message, replay
        self.known_hits = Counter()
        self.notes = {}
        self.errors = []  # harness errors (strings)
        self.known = load_known(pid)

    # -- counting --------------------------------------------------------
    def case(self, key=None, nontrivial=False, classes=(), sample=None, n=1):
        """Count one executed case. key: anything hashable via digest()."""
        self.evaluations += n
        if nontrivial:
            self.nt.add(key if isinstance(key, str) else digest(key))
        for c in classes:
            self.classes[c] += 1
        if sample is not None and len(self.samples) < MAX_SAMPLES:
            self.samples.append(jsonable(sample))

    def cls(self, name, n=1):
        self.classes[name] += n

    def note(self, key, value):
        self.notes[key] = jsonable(value)

    # -- failures --------------------------------------------------------
    def is_known(self, signature):
        return signature in self.known

    def violation(self, signature, message, replay):
        """Record a violation (or count a known finding)."""
        if signature in self.known:
            self.known_hits[signature] += 1
            return False
        n_same = sum(1 for v in self.violations if v["signature"] == signature)
        if n_same < MAX_VIOL_PER_SIG:
            self.violations.append(
                {
                    "signature": signature,
                    "message": str(message)[:2000],
                    "replay": jsonable(replay),
                }
            )
        else:
            self.classes["dup_violation:" + signature] += 1
        return True

    def check(self, cond, signature, message="", replay=None):
        """Oracle helper: raise Violation unless cond (known findings are counted and skipped)."""
        if cond:
            return True
        if signature in self.known:
            self.known_hits[signature] += 1
            return False
        raise Violation(signature, message, replay)

    def error(self, text):
        self.errors.append(str(text)[:4000])

    def merge(self, other: "Rec"):
        self.evaluations += other.evaluations
        self.nt |= other.nt
        self.classes.update(other.classes)
        for s in other.samples:
            if len(self.samples) < MAX_SAMPLES:
                self.samples.append(s)
        for v in other.violations:
            n_same = sum(
                1 for w in self.violations if w["signature"] == v["signature"]
            )
            if n_same < MAX_VIOL_PER_SIG:
                self.violations.append(v)
        self.known_hits.update(other.known_hits)
        for k, v in other.notes.items():
            if k in self.notes and isinstance(v, (int, float)) and isinstance(
                self.notes[k], (int, float)
            ):
                self.notes[k] = self.notes[k] + v
            elif k in self.notes and isinstance(v, list) and isinstance(
                self.notes[k], list
            ):
                self.notes[k] = (self.notes[k] + v)[:50]
            else:
                self.notes[k] = v
        self.errors += other.errors


class Ctx(Rec):
    """Top-level record + configuration for one check run."""

    def __init__(self, pid, tier, seed):
        super().__init__(pid)
        self.tier = tier
        self.seed = seed
        self.level = "exploration"
        self.rule = ""
        self.assumptions = []
        self.exhaustive = None
        self.t0 = time.time()
        self.procs = int(os.environ.get("VERIF_PROCS", "16"))

    @property
    def quick(self):
        return self.tier == "quick"

    def pick(self, quick, thorough):
        return quick if self.tier == "quick" else thorough

    def sub(self):
        return Rec(self.pid)

    # ------------------------------------------------------------------
    def evidence(self):
        cov = {
            "evaluations": int(self.evaluations),
            "distinct_nontrivial": len(self.nt),
            "rule": self.rule,
            "samples": self.samples[:MAX_SAMPLES] or [],
            "classes": dict(sorted(self.classes.items())),
            "known_findings_hit": dict(self.known_hits),
        }
        if self.exhaustive is not None:
            cov["exhaustive"] = bool(self.exhaustive)
        cov.update(self.notes)
        return {
            "property_id": self.pid,
            "tier": self.tier,
            "seed": int(self.seed),
            "level": self.level,
            "coverage": cov,
            "assumptions": list(self.assumptions),
            "wall_s": round(time.time() - self.t0, 2),
            "violations": len(self.violations),
        }

    def finish(self):
        """Write evidence + replays, print lines, return exit code."""
        ev = self.evidence()
        problems = validate_evidence(ev)
        os.makedirs(os.path.join(OUT, "evidence"), exist_ok=True)
        path = os.path.join(OUT, "evidence", f"{self.pid}.json")
        if getattr(self, "part", None):
            # a run of one part (development / sensitivity runs) never replaces the evidence of the whole check
            os.makedirs(os.path.join(OUT, "evidence", "parts"), exist_ok=True)
            path = os.path.join(OUT, "evidence", "parts", f"{self.pid}-{self.part}.json")
        tmp = path + ".tmp"
        with open(tmp, "w") as fh:
            json.dump(ev, fh, indent=1, sort_keys=False)
            fh.write("\n")
        os.replace(tmp, path)
        for sig, n in sorted(self.known_hits.items()):
            print(
                f"KNOWN-FINDING: property={self.pid} {sig} :: "
                f"{self.known.get(sig, '')} (hit {n}x)"
            )
        code = 0
        for v in self.violations:
            rdir = os.path.join(OUT, "replays", self.pid)
            os.makedirs(rdir, exist_ok=True)
            body = {
                "property": self.pid,
                "signature": v["signature"],
                "message": v["message"],
                "seed": self.seed,
                "tier": self.tier,
                "replay": v["replay"],
            }
            name = digest([v["signature"], v["replay"]]) + ".json"
            rpath = os.path.join(rdir, name)
            with open(rpath, "w") as fh:
                json.dump(body, fh, indent=1)
                fh.write("\n")
            print(f"  clause {v['signature']}: {v['message'][:600]}")
            print(f"VIOLATION property={self.pid} replay={rpath}")
            code = 1
        if self.errors:
            for e in self.errors[:5]:
                print("HARNESS-ERROR:", e, file=sys.stderr)
            if code == 0:
                code = 2
        if problems and code == 0:
            print("HARNESS-ERROR: evidence invalid:", problems, file=sys.stderr)
            code = 2
        cov = ev["coverage"]
        print(
            f"[{self.pid}] tier={self.tier} seed={self.seed} evaluations="
            f"{cov['evaluations']} distinct_nontrivial={cov['distinct_nontrivial']}"
            f" violations={len(self.violations)} known={sum(self.known_hits.values())}"
            f" wall={ev['wall_s']}s exit={code}"
        )
        return code


def validate_evidence(ev):
    probs = []
    for k in ("property_id", "tier", "seed", "level", "coverage", "wall_s"):
        if k not in ev:
            probs.append(f"missing {k}")
    cov = ev.get("coverage", {})
    if ev.get("level") in ("exploration", "fault_enumeration"):
        if cov.get("evaluations", 0) < 1:
            probs.append("evaluations < 1")
        if cov.get("distinct_nontrivial", 0) < 2:
            probs.append("distinct_nontrivial < 2")
        if not cov.get("samples"):
            probs.append("no samples")
        if not isinstance(cov.get("rule"), str) or not cov.get("rule"):
            probs.append("no rule")
    try:
        import jsonschema  # optional

        with open("/root/.vp/EVIDENCE.schema.json") as fh:
            schema = json.load(fh)
        jsonschema.validate(ev, schema)
    except ImportError:
        pass
    except FileNotFoundError:
        pass
    except Exception as exc:  # schema violation
        probs.append(f"schema: {exc}")
    return probs


def main(argv=None):
    ap = argparse.ArgumentParser()
    ap.add_argument("pid")
    ap.add_argument("--tier", default=os.environ.get("VERIF_TIER", "quick"))
    ap.add_argument("--replay", default=None)
    ap.add_argument("--part", default=None, help="run only a named sub-check")
    args = ap.parse_args(argv)
    tier = args.tier if args.tier in ("quick", "thorough") else "quick"
    try:
        seed = int(os.environ.get("VERIF_SEED", "1"))
    except ValueError:
        seed = 1
    os.chdir(ROOT)
    ctx = Ctx(args.pid, tier, seed)
    ctx.part = args.part
    try:
        mod = importlib.import_module(f"checks.{args.pid}")
    except Exception:
        traceback.print_exc()
        print(f"HARNESS-ERROR: cannot import checks.{args.pid}", file=sys.stderr)
        return 2
    try:
        if args.replay:
            with open(args.replay) as fh:
                data = json.load(fh)
            ctx.rule = "replay of a saved case"
            mod.replay(ctx, data["replay"])
            # a replay is a single case: evidence is not rewritten
            for sig, n in sorted(ctx.known_hits.items()):
                print(f"KNOWN-FINDING: property={ctx.pid} {sig} (hit {n}x)")
            if ctx.violations:
                for v in ctx.violations:
                    print(f"  clause {v['signature']}: {v['message'][:1500]}")
                print(f"VIOLATION property={ctx.pid} replay={args.replay}")
                return 1
            if ctx.errors:
                for e in ctx.errors:
                    print("HARNESS-ERROR:", e, file=sys.stderr)
                return 2
            print(f"[{ctx.pid}] replay passed")
            return 0
        mod.run(ctx)
        # seconds-long replay tier: saved (shrunk) cases of earlier findings, bypassing the generators
        rdir = os.path.join(ROOT, "regress", args.pid)
        if os.path.isdir(rdir) and not args.part:
            for name in sorted(os.listdir(rdir)):
                if name.endswith(".json"):
                    with open(os.path.join(rdir, name)) as fh:
                        data = json.load(fh)
                    before = len(ctx.violations)
                    mod.replay(ctx, data["replay"])
                    ctx.cls("regress-replayed")
                    for v in ctx.violations[before:]:
                        v["message"] = f"[regression {name}] " + v["message"]
    except Exception:
        traceback.print_exc()
        ctx.error("uncaught exception in check driver:\n" + traceback.format_exc())
    return ctx.finish()


if __name__ == "__main__":
    sys.exit(main())
