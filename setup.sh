#!/bin/bash
# Offline setup: make sure hypothesis is importable by /venv/bin/python.
# Installs into /verif/.deps (never touches /venv) from the local wheelhouse.
HERE="$(cd "$(dirname "${BASH_SOURCE[0]}")" && pwd)"
PY="${VERIF_PY:-/venv/bin/python}"
export PIP_NO_INDEX=1
if ! PYTHONPATH="$HERE/.deps" "$PY" -c "import hypothesis, sortedcontainers, attr" 2>/dev/null; then
  mkdir -p "$HERE/.deps"
  "$PY" -m pip install --quiet --no-index --find-links /opt/veriftools/wheels \
      --target "$HERE/.deps" hypothesis || { echo "setup: cannot install hypothesis" >&2; exit 2; }
fi
# atheris (coverage-guided part of C13) - optional: the part is skipped with a note when it cannot be imported
if ! PYTHONPATH="$HERE/.deps" "$PY" -c "import atheris" 2>/dev/null; then
  "$PY" -m pip install --quiet --no-index --find-links /opt/veriftools/wheels --target "$HERE/.deps" atheris 2>/dev/null || echo "setup: atheris not installed (C13 fuzz part will be skipped)"
fi
PYTHONPATH="$HERE/.deps" "$PY" -c "import hypothesis; print('hypothesis', hypothesis.__version__)" || exit 2
PYTHONPATH="/repo" "$PY" -c "import importlib.util, infretis; print('infretis from', infretis.__file__)" || exit 2
mkdir -p "$HERE/evidence" "$HERE/replays"
exit 0
