#!/bin/bash
# tools/sweep.sh <tier> <seeds...> : run every registered check at the given seeds; print one line per run.
cd "$(dirname "$0")/.."
TIER=$1; shift
export VERIF_OUT=$(mktemp -d /dev/shm/sweep_XXXX)
for seed in "$@"; do
  for id in $(jq -r '.checks[].property_id' MANIFEST.json); do
    s=$(date +%s)
    out=$(VERIF_SEED=$seed ./check $id --tier $TIER 2>&1 | grep -E "^\[C|VIOLATION|HARNESS|KNOWN|  clause" | cut -c1-300)
    echo "seed=$seed $(echo "$out" | tail -1) t=$(( $(date +%s) - s ))s"
    echo "$out" | grep -E "VIOLATION|HARNESS|clause" | head -5
  done
done
rm -rf "$VERIF_OUT"
