#!/bin/bash
# tools/sweep.sh <tier> <seeds...> : run every registered check at the given seeds; print one line per run.
# SWEEP_SKIP="C01 C02" leaves checks out.
cd "$(dirname "$0")/.."
TIER=$1; shift
export VERIF_OUT=$(mktemp -d /dev/shm/sweep_XXXX)
for seed in "$@"; do
  for id in $(jq -r '.checks[].property_id' MANIFEST.json); do
    case " $SWEEP_SKIP " in *" $id "*) continue;; esac
    s=$(date +%s)
    out=$(VERIF_SEED=$seed ./check $id --tier $TIER 2>&1 | grep -E "^\[C|VIOLATION|HARNESS|KNOWN|  clause" | cut -c1-300)
    echo "seed=$seed $(echo "$out" | tail -1) t=$(( $(date +%s) - s ))s"
    echo "$out" | grep -E "VIOLATION|HARNESS|clause" | head -5
  done
done
# keep the replay files of anything that was reported (outside /verif; not needed by any registered command)
if [ -d "$VERIF_OUT/replays" ] && [ -n "$(ls -A "$VERIF_OUT/replays" 2>/dev/null)" ]; then
  keep=/var/tmp/sweep_replays_$$; mkdir -p $keep; cp -r "$VERIF_OUT/replays/." $keep/; echo "replays kept in $keep"
fi
rm -rf "$VERIF_OUT"
