#!/venv/bin/python
"""Confirm a candidate seeded change, run the property's check against it, and keep it.

  tools/seeded.py <srcdir> <name> <PROP> [--tier quick] [--checks C09,C12]

Keeps /verif/seeded/<name>/{patch.diff,demo.py,meta.json} only if the change is confirmed
(tests pass with it, demo fails with it and passes without). Records which checks detect it.
"""
import json, os, shutil, subprocess, sys

src, name, prop = sys.argv[1:4]
rest = sys.argv[4:]
tier = "quick"; checks = [prop]
while rest:
    a = rest.pop(0)
    if a == "--tier": tier = rest.pop(0)
    elif a == "--checks": checks = rest.pop(0).split(",")
r = subprocess.run(["/verif/tools/confirm_seeded.sh", src, name], capture_output=True, text=True)
line = [l for l in r.stdout.splitlines() if l.startswith("RESULT")]
print(line[-1] if line else r.stdout[-500:] + r.stderr[-500:])
confirmed = r.returncode == 0
det = {}
for c in checks:
    m = subprocess.run(["/verif/tools/mut.py", c, "--patch", os.path.join(src, "patch.diff"), "--tier", tier], capture_output=True, text=True)
    det[c] = {0: "missed", 1: "detected"}.get(m.returncode, f"harness-error({m.returncode})")
    clauses = [l.strip() for l in m.stdout.splitlines() if l.strip().startswith("clause")]
    print(f"  check {c} [{tier}]: {det[c]}", clauses[:2])
if not confirmed:
    print("NOT confirmed -> not kept"); sys.exit(1)
dst = os.path.join("/verif/seeded", name)
os.makedirs(dst, exist_ok=True)
for f in ("patch.diff", "demo.py"):
    shutil.copy(os.path.join(src, f), os.path.join(dst, f))
try:
    meta = json.load(open(os.path.join(src, "meta.json")))
except Exception:
    meta = {}
old = {}
if os.path.exists(os.path.join(dst, "meta.json")):
    old = json.load(open(os.path.join(dst, "meta.json")))
meta["property"] = prop
meta["confirmed"] = {
    "how": "tools/confirm_seeded.sh: scratch worktree of /repo HEAD under /tmp; pinned suite (76 tests, always-failing test_restart_multiple_w deselected) passes with the change; demo.py exits 1 with it and 0 without; worktree removed",
    "result": line[-1] if line else "",
}
d = old.get("detection", {}); d.update({f"{c}:{tier}": v for c, v in det.items()})
meta["detection"] = d
meta["ran"] = f"tools/mut.py <check> --patch seeded/{name}/patch.diff --tier {tier} (scratch copy of the package under /dev/shm, removed afterwards)"
json.dump(meta, open(os.path.join(dst, "meta.json"), "w"), indent=1)
print("kept in", dst)
