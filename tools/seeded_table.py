#!/venv/bin/python
"""Print the markdown detection table of DESIGN.md §8.5 from seeded/*/meta.json.  tools/seeded_table.py [suffixes, default CD]"""
import glob, json, os, sys

suff = sys.argv[1] if len(sys.argv) > 1 else "CD"
root = os.path.join(os.path.dirname(os.path.dirname(os.path.abspath(__file__))), "seeded")
print("| seeded change | property | needs (abridged) | detected by (quick tier) | missed by |")
print("|---|---|---|---|---|")
for d in sorted(glob.glob(os.path.join(root, "*"))):
    name = os.path.basename(d)
    if name[-1] not in suff:
        continue
    m = json.load(open(os.path.join(d, "meta.json")))
    det = m.get("detection", {})
    hit = sorted(k.split(":")[0] for k, v in det.items() if v == "detected")
    miss = sorted(k.split(":")[0] for k, v in det.items() if v == "missed")
    needs = " ".join(str(m.get("needs", "")).split()).replace("|", "/")[:150]
    print(f"| {name} | {m.get('property')} | {needs} | {', '.join(hit) or '-'} | {', '.join(miss) or '-'} |")
