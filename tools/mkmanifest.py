#!/venv/bin/python
"""Regenerate MANIFEST.json from the table below (keeps it schema-valid)."""
import json
import os

ROOT = os.path.dirname(os.path.dirname(os.path.abspath(__file__)))

# id -> (technique, level category, level text, level note, design ref)
CHECKS = {}


def add(pid, technique, text, note, category="exploration", ref=None):
    CHECKS[pid] = dict(
        technique=technique, category=category, text=text, note=note, ref=ref or f"DESIGN.md §4 {pid}"
    )


add(
    "C15",
    "property-based testing (Hypothesis) against a list model of paths",
    "Generated segment pairs / order sequences / interface triples are run through paste_paths, "
    "Path.reverse, Path.copy, append/+=, check_interfaces and compared with a plain-list reference "
    "model; sampled, not exhaustive.",
    "Frames are System objects as engines/load_path build them; only attribute re-assignment (not in-place "
    "array mutation) is claimed for copy independence, as the statement says.",
)

add(
    "C10",
    "property-based testing (Hypothesis) against a run-segmentation reference model; scripted random stream",
    "Generated order sequences (grid containing interface values, jumps over the region, constructive multi-excursion paths) "
    "are weighed by wirefence_weight_and_pick / compute_weight / calc_cv_vector / high_acc_swap and compared with a reference "
    "written from the statement; time-reversal metamorphic relation; selection law checked exactly over a grid of scripted draws. Sampled.",
    "compute_weight doubling only claimed for end points strictly outside the outer interfaces; ties u == cum/n accept either segment.",
)
add(
    "C02",
    "exhaustive enumeration (0/1 staircases) + property-based testing against an independent exact permanent oracle",
    "inf_retis is compared entry-wise with W_ij*perm(W^ij)/perm(W) from an independent subset-DP permanent (exact integer / rational "
    "arithmetic up to 9x9): exhaustively for all 0/1 staircase matrices, busy subsets and row arrangements up to 4 plus-ensembles "
    "(sampled arrangements for 5-6), and for Hypothesis-generated matrices with integer/real high-acceptance weights up to 11 "
    "plus-ensembles; metamorphic row rescaling; direct permanent_prob / quick_prob comparisons; Monte-Carlo path (>12) only structurally.",
    "Minus path in slot 0, ghost row/column zero and busy, symmetric busy slots (maintained by pick/add_traj; checked under C03/C05). "
    "Tolerance 1e-9 absolute on probabilities; unreachable blocks (perm=0) are excluded and counted.",
)

add(
    "C20",
    "property-based testing (Hypothesis): metamorphic relations (translation, image shift, rotation, velocity reversal, box form)",
    "Distance, Distancevel, Dihedral, Puckering, Velocity, Position are evaluated on generated configurations and on their images under "
    "rigid translation, per-atom box-vector shifts, proper rotations and velocity reversal (directly and through "
    "EngineBase.calculate_order with vel_rev from arrays and from the configuration file); values are also compared with closed forms; "
    "3- vs 9-component boxes; minimum-image bound; bitwise no-mutation of the system. Sampled.",
    "Orthogonal boxes; separations within 1e-6 L of exactly L/2 excluded from invariance clauses (rounding tie); degenerate "
    "(collinear/planar) geometries avoided by construction.",
)

NOT_YET = "check not built yet in this session (design exists in DESIGN.md §4); will be claimed once its check is registered"


def main():
    props = [json.loads(l) for l in open(os.path.join(ROOT, "properties.jsonl"))]
    checks = []
    na = []
    for p in props:
        pid = p["id"]
        if pid in CHECKS and os.path.exists(os.path.join(ROOT, "checks", f"{pid}.py")):
            c = CHECKS[pid]
            checks.append(
                {
                    "property_id": pid,
                    "quick_cmd": f"./check {pid} --tier quick",
                    "thorough_cmd": f"./check {pid} --tier thorough",
                    "evidence_file": f"evidence/{pid}.json",
                    "replay_cmd_template": f"./check {pid} --replay {{path}}",
                    "level_claimed": {
                        "category": c["category"],
                        "text": c["text"],
                        "design_ref": c["ref"],
                    },
                    "level_note": c["note"],
                    "technique": c["technique"],
                }
            )
        else:
            na.append({"property_id": pid, "reason": NOT_YET})
    man = {
        "version": 1,
        "setup_cmd": "./setup.sh",
        "hooks": {
            "guard": "INFRETIS_VERIF",
            "enable": "no source hook is used: observation is by attribute rebinding inside forked children and by plug-in engine modules through the public extension points",
            "baseline_off_cmd": "cd /repo && /venv/bin/python -m pytest -ra -q -p no:cacheprovider --timeout=900 --continue-on-collection-errors",
            "source_commits": [],
            "add_only": True,
        },
        "checks": checks,
        "not_applicable": na,
        "notes": "All checks: ./check <ID> --tier quick|thorough, VERIF_SEED honoured, exit 0/1/2 as in DESIGN.md §2.1. "
        "Known (unrepaired) findings are listed in known_findings.json; repaired ones there under 'fixed'.",
    }
    with open(os.path.join(ROOT, "MANIFEST.json"), "w") as fh:
        json.dump(man, fh, indent=1)
        fh.write("\n")
    print("checks:", [c["property_id"] for c in checks])
    print("not claimed:", [n["property_id"] for n in na])


main()
