#!/venv/bin/python
"""Regenerate MANIFEST.json from the table below (keeps it schema-valid)."""
import json
import os

ROOT = os.path.dirname(os.path.dirname(os.path.abspath(__file__)))

# id -> (technique, level category, level text, level note, design ref)
CHECKS = {}


def add(pid, technique, text, note, category="exploration", ref=None):
    CHECKS[pid] = dict(
        technique=technique, category=category, text=text, note=note, ref=ref or f"DESIGN.md §4 {pid}"
    )


add(
    "C15",
    "property-based testing (Hypothesis) against a list model of paths",
    "Generated segment pairs / order sequences / interface triples are run through paste_paths, "
    "Path.reverse, Path.copy, append/+=, check_interfaces and compared with a plain-list reference "
    "model; extremes and classification are re-read after a frame of a copy was re-assigned (look, re-assign, look); empty paths; paths that hold more frames than their own limit (as loaded paths may); sampled, not exhaustive.",
    "Frames are System objects as engines/load_path build them; only attribute re-assignment (not in-place "
    "array mutation) is claimed for copy independence, as the statement says.",
)

add(
    "C10",
    "property-based testing (Hypothesis) against a run-segmentation reference model; scripted random stream",
    "Generated order sequences (grid containing interface values, jumps over the region, constructive multi-excursion paths) "
    "are weighed by wirefence_weight_and_pick / compute_weight / calc_cv_vector / high_acc_swap and compared with a reference "
    "written from the statement; time-reversal metamorphic relation; selection law checked exactly over a grid of scripted draws; frames 1 ulp / 1e-9 / 3e-8 "
    "from an interface; the weight-vector and swap parts also run the same system translated along the order-parameter axis (cap, interfaces, lambda_-1 on 0.0; lambda_-1 also as an integer, as TOML delivers a value written without a decimal point). Part `moves`: paths as wire_fencing hands them back through run_md (pasted, reversed, extended in place) carry the weight vector of their frames. Sampled.",
    "compute_weight doubling only claimed for end points strictly outside the outer interfaces; ties u == cum/n accept either segment.",
)
add(
    "C02",
    "exhaustive enumeration (0/1 staircases) + property-based testing against an independent exact permanent oracle",
    "inf_retis is compared entry-wise with W_ij*perm(W^ij)/perm(W) from an independent subset-DP permanent (exact integer / rational "
    "arithmetic up to 9x9): exhaustively for all 0/1 staircase matrices, busy subsets and row arrangements up to 4 plus-ensembles "
    "(sampled arrangements for 5-6), and for Hypothesis-generated matrices with integer/real high-acceptance weights up to 11 "
    "plus-ensembles, incl. frame counts of very long paths that differ by a few frames; blocks of exactly 12 paths (the largest computed exactly); metamorphic row rescaling (factors 2^-30 .. 2^30); the cached matrix equals a fresh evaluation over generated histories; direct permanent_prob / quick_prob comparisons; Monte-Carlo path (>12) only structurally.",
    "Minus path in slot 0, ghost row/column zero and busy, symmetric busy slots (maintained by pick/add_traj; checked under C03/C05). "
    "Tolerance 1e-9 absolute on probabilities; unreachable blocks (perm=0) are excluded and counted.",
)

add(
    "C20",
    "property-based testing (Hypothesis): metamorphic relations (translation, image shift, rotation, velocity reversal, box form)",
    "Distance, Distancevel, Dihedral, Puckering, Velocity, Position are evaluated on generated configurations and on their images under "
    "rigid translation, per-atom box-vector shifts, proper rotations and velocity reversal (directly and through "
    "EngineBase.calculate_order with vel_rev from arrays and from the configuration file); values are also compared with closed forms; "
    "3- vs 9-component boxes; minimum-image bound; bitwise no-mutation of the system; exactly planar trans / cis dihedrals (180 / 0 degrees); boxes with an unbounded (infinite) axis; the box updated in place between two evaluations of one parameter object; repeated evaluations through one engine object on an unchanged file; periodic pair parameters through calculate_order on a configuration file that carries no box (the phase point's own box applies). Sampled.",
    "Orthogonal boxes; separations within 1e-6 L of exactly L/2 excluded from invariance clauses (rounding tie); collinear "
    "geometries and planar rings avoided by construction.",
)

HIST = ("Histories are generated as plain data (lattice plug-in engine configuration: 2-7 interfaces, sh/wf moves, cap, 1..n-1 workers, "
        "single- and multi-engine layouts, delete_old, seeds, zero-swap probability; 1-3 process lifetimes with generated completion orders, "
        "clean stops and kills; restarted lifetimes may ask for fewer additional steps than workers and may run on another worker count; lambda_-1 variant of [0-], "
        "translated copies of the system with the cap / lambda_0 / lambda_-1 on 0.0, companion files kept via keep_traj_fnames, QuanTIS zero swaps, screen / pattern reporting options, other load / data directories; a restarted lifetime may die before its first result; an unrelated simulation may have run earlier in the same interpreter; the runner may serialise a submitted job only when the scheduler next talks to it - the latest point the real runner allows) and executed by the real scheduler()/REPEX_state/run_md/PathStorage in forked children behind a "
        "deterministic runner that owns the completion order; a reference model kept by the harness is compared after every event. Sampled. ")
ENUM = ("In addition small systems (3-5 ensembles, 1-3 workers, sh-only / wf / zero-swap move sets) are explored exhaustively in memory: every "
        "scheduler draw (scripted rgen.choice/random), every completion order and every synthesised move outcome (reject / accept with each "
        "admissible weight row), to closure over (weight matrix, busy marks, in-flight set) states, the same invariants evaluated in every state; "
        "in every state the run is also killed and restarted from what write_toml last wrote (restart record = jobs in flight, re-issued first and in order; the state reached joins the exploration). ")
add(
    "C03",
    "model-based property testing over generated histories/schedules (Hypothesis), deterministic runner owning the completion order",
    HIST + ENUM + "Model: the set of in-flight jobs. Checked after every pick and every treat_output: ensembles/paths/engine instances/worker "
    "directories of in-flight jobs pairwise disjoint; busy marks == in-flight ensembles; picked path sits in its slot with non-zero weight; "
    "engine_occ agrees; zero swaps only when both were idle; cached probability matrix equals a fresh evaluation.",
    "Lazy execution at completion time stands for concurrent execution (workers share nothing - which is what the check verifies). "
    "md_items cross a pickle boundary as in production. The exhaustive part abstracts paths to their weight rows (outcomes synthesised, not run through an engine).",
)
add(
    "C04",
    "model-based property testing over generated histories/schedules (Hypothesis) with a conservation-law model",
    HIST + ENUM + "Model: per-column idle counters and the set of archived paths. After every completed step the summed fractions must grow by exactly "
    "1 in idle columns and 0 in busy ones (longdouble, 1e-12), only idle live paths change and only where their weight is non-zero, "
    "data-file rows appended = replaced paths of an accepted move, no path written twice or while live (also across restarts); at the end "
    "rows + [current.frac] = idle counts per column (one worker: = cstep).",
    "Same driver assumptions as C03. Crash-window duplicates (row written, restart file not yet) belong to C08 and are not generated here (kills happen between steps).",
)
add(
    "C05",
    "model-based property testing over generated histories/schedules (Hypothesis) with an independent perfect-matching oracle",
    HIST + ENUM + "Before every pick the idle block must have a perfect matching (independent permanent oracle) and the probability matrix must be "
    "finite, non-negative and sum to the number of idle ensembles; after every step idle slots have non-zero diagonal, live paths are "
    "distinct, path numbers increase and are never reused across restarts; each restart file loads; an exception or a child that does not "
    "terminate (sort loop) is a violation. Exhaustive part `shapes`: for every multiset of 0/1 staircase rows of 2..6 plus-ensembles (sorted and reversed arrangement, nothing busy / each single ensemble busy) the draws pick() makes from the probability matrix are possible.",
    "Precondition taken from the sampler's design: the engine cannot jump over [lambda_i, cap) (staircase weights) - generated caps respect it. Time-out 240 s per lifetime (normal: < 1 s).",
)

add(
    "C06",
    "differential / metamorphic property testing over generated restart chains, kill schedules and interpreter hash seeds (Hypothesis)",
    "One worker: a run in one go is compared byte for byte (data file, restart file minus restarted_from, order/energy/traj tables and frame "
    "files of every live path; pid/counter-bearing file names normalised) with chains of clean stops at generated split points, for generated "
    "seeds (not only 0), sh/wf moves, delete_old; repeated runs; restart of a finished run is a no-op. Several workers: kills with jobs in flight, "
    "also after an earlier restart: the jobs in flight as of the last completed step are exactly the first jobs the restart issues; same "
    "(seed, schedule, kill points) twice gives identical files - the repeat also after an unrelated simulation ran in the same interpreter. Sampled; plug-in lattice engine (exact integers at six decimals). TurtleMD part: the "
    "repository's double-well example (Langevin, xyz files, order parameter rounded to six decimals, sh/wf, caps incl. 0.0, delete_old) straight vs. chains. "
    "Fresh-interpreter part: the same input run twice through infretis.bin.internalrun (real scheduler and process pool) in new interpreters with different "
    "PYTHONHASHSEED, single- and two-engine layouts: identical files. Exhaustive part (checks/enumsys.py): in every reachable state of small systems (3-5 ensembles, "
    "1-3 workers) the run is killed and restarted in memory from the last restart record: the record lists exactly the jobs in flight, they are re-issued first and in order, "
    "and the states reached are the ones reachable without a restart (closure), so chains of kills of any length are covered for these systems.",
    "allowmaxlength=true for straight-vs-chain, chain-vs-chain otherwise (documented loss of the 'initial path' marker).",
)
add(
    "C07",
    "model-based property testing over generated histories with restarts/kills (Hypothesis) + differential on completion order / restart points / seed",
    "The recorder notes seed-sequence identity and initial bit-generator state of the move and engine stream of every ensemble of every job "
    "issued, over up to four process lifetimes with kills (jobs in flight) and clean restarts: pairwise distinct, distinct within a zero swap, "
    "distinct from the scheduler's stream; global numpy/random generators untouched by every move. Differential: another completion order or "
    "other clean restart points give the same streams to the same job ordinal - also a 14-15 ensemble system whose probabilities come from the Monte-Carlo routine vs. the same system with plain shooting; another seed shares none. Engine-class part: the noise of TurtleMD's "
    "Langevin integrator (also with a stray user `seed` setting), of ASE's Langevin and the seed handed to the (fake) LAMMPS binary are functions of the job's "
    "engine stream only: same stream => identical trajectory / seed, different stream => different; the stream reaches the engine as in a real run (a spawned child, pickled on its way to the worker). The job a worker receives is the job that was prepared and submitted (late hand-over). Sampled.",
    "A job in flight at a kill whose result was never consumed is 'the same job' when it is re-issued (recorded) or re-picked (last, unrecorded pick "
    "reproduced from the restored generator state). Velocity generation per engine class is C16's.",
)

add(
    "C17",
    "grid enumeration of (workers, steps, restart point, extension, completion order) through a deterministic runner + property-based testing of the real aiorunner",
    "(a) every combination of 3-5 interfaces, 1..n-1 workers, step counts W..W+6, restart point (clean stop or kill after k completions), "
    "extension steps..steps+W+2 and three completion-order policies is run through the real scheduler with a deterministic runner "
    "(thorough: full grid; quick: boundary subset): jobs issued = results consumed = requested moves per lifetime, step counter in the restart "
    "file, nothing left in flight / in the restart record / in the runner, a finished run restarted does nothing; restarts on fewer / more workers; "
    "idle slots keep paths with non-zero weight after every step; restarted lifetimes that die before their first result, once or twice in a row, do not block the next restart. (b) the real aiorunner "
    "(asyncio thread + process pool) with generated task durations (ties), failing tasks, 1-4 workers and consumer lags: every unit executed "
    "exactly once, every result or exception delivered exactly once to its own future, stop() returns - also when everything is submitted at once and "
    "stop() is called with work still queued. (c) real scheduler+aiorunner "
    "end-to-end vs the deterministic runner: identical files; real multi-worker runs, also pinned to one core (fewer cores than workers): jobs executed by the workers = requested moves, nothing left in the restart record.",
    "The asyncio/process-pool interleaving of aiorunner is driven (durations, lags), not owned: an interleaving-specific lost wake-up could escape. "
    "Pool processes surviving stop() until interpreter exit are reported, not judged.",
)

add(
    "C09",
    "property-based testing (Hypothesis) with a scripted plug-in engine and scripted random streams against an exact reference outcome; boundary-targeted draws",
    "shoot / wire_fencing / retis_swap_zero are called directly (and through run_md) with engine trajectories and random draws that are the "
    "generated input (half-integer grid, so interface values and exact length limits are hit; the length draw is placed at n_old/n_new, "
    "n_old/(n_new+-1) and their float neighbours). Shooting is compared with an exact reference (accept/reject and order sequence, rational "
    "arithmetic for the threshold); wire fencing and swaps with the ensemble-membership predicate, weight>0, trajectory-piece adjacency and "
    "frame-reference integrity; every rejection must leave the old path object, its frames and its files unchanged and run_md must keep it; the "
    "shoot and wire-fencing parts also run translated copies of the system (exact: multiples of 1/2) that put lambda_-1, an interface or the cap on 0.0. Chain part: a shooting move from a path that a zero swap has just produced (swapped paths loaded / restarted / sampled) follows the n_old/n_new rule like any sampled path. Wire-fencing paths handed back through run_md carry exactly the weight vector of their frames (caps below other interfaces, mixed sh/wf ensembles). Sampled.",
    "Old paths have interior frames strictly inside the interfaces; a value exactly on an interface counts as outside for an end point and inside "
    "for an interior frame; at a float-rounding tie of n_old/xi either rounding is accepted; wire-fencing trajectories cannot jump over [lambda_i, cap).",
)
add(
    "C11",
    "property-based testing (Hypothesis) with scripted and exactly reversible (billiard) plug-in engines; metamorphic swap-twice relation; boundary-targeted draws",
    "retis_swap_zero / quantis_swap_zero on generated valid [0-]/[0+] pairs (lambda_-1 variant, wf in [0+], binding length limits): junction "
    "frames identical in order and configuration content, new paths = reversed backward trajectory + junction / junction + forward "
    "trajectory, membership in both ensembles, old paths untouched, roomy swaps accepted, [0-] ending left rejected without any propagate call; "
    "swap o swap restores both order sequences exactly under integer billiard dynamics; QuanTIS with two engines of different potential and "
    "beta: statuses QNE/QLL/QS0/QS1/QEA exactly under their conditions, acceptance iff u <= min(1, exp(b0 dV0 - b1 dV1)) probed at pacc and its float neighbours. Sampled.",
    "One-step landings exactly on lambda_0 are not judged (QuanTIS crossing condition). TurtleMD variant (tolerance 1e-5) not built; reversibility is exact on the billiard engine.",
)

add(
    "C13",
    "exhaustive byte-offset enumeration of write cuts per generated file + generated multi-cut schedules (Hypothesis) + coverage-guided fuzzing of the readers (atheris/libFuzzer) with the same oracle in the target; harness owns the writer and the poll clock",
    "For generated LAMMPS dumps, CP2K xyz files and TRR files (both byte orders/precisions, independent struct encoder) every single byte "
    "offset (TRR: every stride-th) is used as a partial write, plus multi-cut schedules slid over the file: the reader is polled as the "
    "engines poll it (ReadAndProcessOnTheFly per poll; GromacsRunner.get_gromacs_frames with a stub process whose poll() and the module sleep "
    "are owned by the harness, so no wall clock). Oracle: no exception, cumulative frames are a prefix of the written frames with exactly the "
    "written values, never more than the frames whose data bytes are on disk, all frames within two polls after the writer finished - also when the writer writes the rest of the file and exits between two looks of the reader (between its look at the file size and its look at the process). "
    "Exhaustive over single cuts of the generated files; files and multi-cut schedules are sampled. An atheris campaign (4000 / 150000 executions, "
    "-seed from VERIF_SEED, empty corpus, coverage of infretis' reader modules) decodes bytes into (format, trajectory, up to 8 cuts, idle polls) and applies the same oracle.",
    "The writer finishes normally (complete final file). No per-poll lower bound is demanded (the LAMMPS reader may spend a poll on a lone newline; callers tolerate it).",
)

add(
    "C16",
    "property-based testing (Hypothesis) of modify_velocities on five engine classes built from generated input directories + statistical tests with harness-side unit constants",
    "CP2K, LAMMPS, GROMACS (infretis_genvel), ASE and TurtleMD engines are constructed from generated inputs (atom counts, element masses incl. "
    "integer-typed masses, positions, old velocities, LAMMPS box rows with tilt factors, temperatures, zero_momentum settings, stream seeds, ASE velocity-Verlet / Langevin with and without fixcm, TurtleMD systems of one, two and three dimensions); "
    "before the statistics a second engine of the same class, temperature and size but other masses draws in the same process; modify_velocities is checked per call with "
    "independent readers of the written frame (positions/box/identities preserved, source frame byte-identical, zero momentum, kin_new = 1/2 sum m "
    "v^2 of the written velocities, dek, reproducible from the job stream only, global RNG untouched) the wire-fencing move is run with the scripted engine, which records every velocity request: zero_momentum as configured reaches the engine; and statistically (per atom mean 0 and "
    "<m v^2> = kT within 6 SE, chi-square normality) with CODATA-style constants that are not taken from the engine modules. Sampled.",
    "Velocities generated by the external GROMACS binary are outside the property. Tolerances follow the written precision (15.9f in xyz/g96).",
)

add(
    "C19",
    "property-based round-trip / differential testing (Hypothesis) with independent readers, an independent TRR encoder and reference models of the template editors",
    "g96, extended-xyz and lammpstrj files are written by the harness and read by infretis, and written by infretis and read by independent "
    "parsers (values filling the fixed-width fields, shuffled ids, non-zero lower box bounds, 3/9-component boxes, multi-frame files, frame k "
    "extraction, velocity reversal changes velocities only); TRR frames from an independent struct encoder decode exactly for 2 byte orders x "
    "2 precisions and identically across byte orders, also with velocity / force blocks in some frames only and triclinic boxes (all nine g96 BOX entries), frames that carry any subset of the box / virial / pressure matrices; "
    "mdp / CP2K (incl. keywords repeated within a section and sibling sections with one and the same header, two requested sections below one missing parent section) / LAMMPS template editors are compared with reference edit models "
    "(exactly the requested entries change - numeric values incl. 0 and 0.0 as the engines pass them; second application is a no-op; CP2K compared as unordered section trees). Sampled.",
    "Editors are driven with the engines' call patterns; velocities fit the 15-character g96 field with either sign; LAMMPS write_for_run consumes its variables, so idempotence means 'function of template and settings'.",
)
add(
    "C01",
    "statistical property-based testing: replicated seeded simulations against closed-form crossing probabilities (jackknife 6-sigma band with re-test)",
    "Configurations (move assignment, cap, workers, completion-order policy, restart plan incl. kills with jobs in flight) are run as 32 independent "
    "replicas through the real scheduler/run_md/PathStorage with the lattice-walk plug-in engine; the conditional crossing probabilities are "
    "estimated from the data file and restart file only and compared with (k+1)/(k+2) within 6 jackknife standard errors, with one re-test "
    "(fresh seeds, doubled length, same sign required). One configuration is a translated copy of the lattice with the cap on 0.0. quick: 5 configurations x 32 x 1500 steps; thorough: 28 configurations incl. all {sh,wf}^3 x 5000 steps.",
    "Statistical: biases below ~6 SE (quick 0.03-0.07, thorough ~0.015-0.03) are not detected; small acceptance biases are C09's job.",
)

add(
    "C18",
    "property-based testing (Hypothesis) of near-miss configurations against a validity predicate transcribed from the statement; accepted configurations are initialised and run in forks",
    "Valid lattice configurations are mutated in 0-2 fields (interfaces order/duplicates/count, workers, moves length, cap incl. 0.0 and wf-ensemble "
    "interfaces, lambda_-1 incl. 0, engine sections - also GROMACS-class sections beside an undefined name -, quantis); invalid by the predicate => setup_config must raise TOMLConfigError (acceptance or any "
    "other exception is a violation), also when the same settings arrive as a restart file (a user who edits restart.toml); accepted => with constructed valid start paths setup_internal succeeds, diagonal weights non-zero, all first "
    "picks succeed, the [0-] ensemble is set up for the configured lambda_-1 (any value, 0.0 included), an explicit ensemble_engines layout is what the ensembles "
    "and first picks use, a short run completes, the ensemble definitions do not change when another simulation (other interfaces, lambda_-1 toggled) is set up in the same interpreter, and the restart file is a fixed point of setup_config's normalisation. Sampled.",
    "A configuration valid by the statement may be rejected for reasons the statement does not list. Accepted quantis / lambda_-1 configurations are initialised but not run here (plug-in engine has no energies).",
)

add(
    "C14",
    "property-based round-trip testing of PathStorage/load_path (Hypothesis) + model-based history testing of file retention with a deterministic runner",
    "(a) generated paths (multi-file, arbitrary frame order and indices, reversed frames, 1-3 order components on/off the 6-decimal grid, missing "
    "energies, keep_traj_fnames side files) are stored and loaded back: same length, references, directions, orders and energies to six decimals, "
    "file contents intact under the path's own directory, source object unchanged; worker directories on another file system than the load directory. (b) " + HIST[0].lower() + HIST[1:] +
    "After every step: files of all live paths, of the active paths of the restart file on disk and of the input paths of the jobs it lists as in flight exist, no file shared, initial paths "
    "byte-identical, replaced paths deleted only with delete_old and not before the lag.",
    "Distinct basenames within a path (pid+counter prefixes). The asserted lag is one replacement less than the implemented one. Crash windows inside a step belong to C08.",
)

add(
    "C08",
    "fault enumeration: every main-process file-system effect of a target step is a crash point (byte-granular for file contents); recovery checked in fresh forks",
    "For generated scenarios (configurations x step kinds: sh/wf accept, reject, zero-swap accept/reject, accept with deletion; also after an "
    "earlier restart with jobs in flight) an interposer numbers every file-system effect of the main process inside treat_output (open-for-write, "
    "content commit, move, remove, rmdir, every single mkdir, replace) in a dry run; then the process is killed before EVERY effect index (content commits: "
    "0 bytes, a prefix, all but one byte), plus second crashes inside the recovery run and while the restart is being prepared (setup_config's repair of the data file). In fresh forks the restart must start and load every "
    "path with non-zero weight, re-issue the recorded in-flight jobs (and the restart file on disk must be the one of the previous or of the interrupted step, and its record must list exactly the jobs that were in flight when it was written, by the dry run's trace), continue to the requested steps keeping the per-step invariants of "
    "C04/C05/C14, list every replaced path exactly once in the data file and conserve the weights. Exhaustive over single crash points of the "
    "chosen target steps (incl. the step before the last of a multi-worker run, continued to the same step count: the jobs in flight then cover all steps that are left - every counted step must be a completed move); scenarios are sampled.",
    "Crash = process death (os._exit), not power loss: data not yet written by the process is lost, written data persists. Buffered writes are "
    "modelled as reaching the disk at close with an explicit generated prefix. Worker-side effects are not crash points.",
    category="fault_enumeration",
)

add(
    "C12",
    "property-based testing (Hypothesis) of every engine class against fake external MD programs with generated output schedules and faults; independent frame readers and reference order parameters",
    "LAMMPS, CP2K and GROMACS engines are run against fake lmp/cp2k/gmx programs (free flight with elastic reflection, real file formats) whose "
    "behaviour script is generated: frames per flush, pauses, frames cut in the middle, slow SIGTERM, death with an exit code at frame m, "
    "per-frame varying box, the command being a launcher whose worker child does the writing; ASE and TurtleMD run in-process; the scripted plug-in through EngineBase.propagate. For generated start points "
    "(frame k of a multi-frame file, velocity-direction flag), order parameters (periodic Distance incl. > half a box, Velocity, Distancevel), "
    "interfaces, subcycles, maxlen and direction: first frame = given point (positions, velocities and the box of the start frame, which for GROMACS may differ from the box of the input configuration); stored order of every frame = order recomputed by the harness "
    "from the frame the path references (own box, own velocity direction); stop rule and success flag; external program gone afterwards; "
    "non-zero exit or death by a signal raises RuntimeError instead of a truncated path; energies on the right frames; backward propagation retraces forward; a second engine object of the same worker (pickled copy, same directory and ensemble name) writes other files and leaves the first path's files as they were. "
    "ASE and TurtleMD also with real forces (spring / Lennard-Jones): frame k of a run with s MD steps per frame equals MD step k*s of a run with one step per frame, and the backward run retraces. Sampled.",
    "Real MD programs are absent; fakes emit the documented formats. Wall-clock timing of the fakes is real: a verdict that is not reproduced on "
    "immediate re-execution is reported as ':timing-dependent'.",
)

NOT_YET = "check not built yet in this session (design exists in DESIGN.md §4); will be claimed once its check is registered"


def main():
    props = [json.loads(l) for l in open(os.path.join(ROOT, "properties.jsonl"))]
    checks = []
    na = []
    for p in props:
        pid = p["id"]
        if pid in CHECKS and os.path.exists(os.path.join(ROOT, "checks", f"{pid}.py")):
            c = CHECKS[pid]
            checks.append(
                {
                    "property_id": pid,
                    "quick_cmd": f"./check {pid} --tier quick",
                    "thorough_cmd": f"./check {pid} --tier thorough",
                    "evidence_file": f"evidence/{pid}.json",
                    "replay_cmd_template": f"./check {pid} --replay {{path}}",
                    "level_claimed": {
                        "category": c["category"],
                        "text": c["text"],
                        "design_ref": c["ref"],
                    },
                    "level_note": c["note"],
                    "technique": c["technique"],
                }
            )
        else:
            na.append({"property_id": pid, "reason": NOT_YET})
    man = {
        "version": 1,
        "setup_cmd": "./setup.sh",
        "hooks": {
            "guard": "INFRETIS_VERIF",
            "enable": "no source hook is used: observation is by attribute rebinding inside forked children and by plug-in engine modules through the public extension points",
            "baseline_off_cmd": "cd /repo && /venv/bin/python -m pytest -ra -q -p no:cacheprovider --timeout=900 --continue-on-collection-errors",
            "source_commits": [],
            "add_only": True,
        },
        "checks": checks,
        "not_applicable": na,
        "notes": "All checks: ./check <ID> --tier quick|thorough, VERIF_SEED honoured, exit 0/1/2 as in DESIGN.md §2.1. "
        "Known (unrepaired) findings are listed in known_findings.json; repaired ones there under 'fixed'.",
    }
    with open(os.path.join(ROOT, "MANIFEST.json"), "w") as fh:
        json.dump(man, fh, indent=1)
        fh.write("\n")
    print("checks:", [c["property_id"] for c in checks])
    print("not claimed:", [n["property_id"] for n in na])


main()
