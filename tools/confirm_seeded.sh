#!/bin/bash
# Confirm a candidate seeded change: tools/confirm_seeded.sh <dir with patch.diff demo.py> [name]
# -> applies it in a scratch worktree of /repo (outside /repo and /verif), runs the pinned test
#    suite (76 must pass), runs the demo with and without the change, removes the worktree.
D="$(cd "$1" && pwd)"; NAME="${2:-$(basename "$D")}"
WT="/tmp/confirm_wt/$NAME.$$"
mkdir -p /tmp/confirm_wt
git -C /repo worktree add -q --detach "$WT" HEAD || exit 2
cleanup(){ git -C /repo worktree remove --force "$WT" 2>/dev/null; rm -rf "$WT"; }
trap cleanup EXIT
cd "$WT"
/venv/bin/python "$D/demo.py" "$WT" >"$D/confirm_demo_clean.log" 2>&1; CLEAN=$?
git apply "$D/patch.diff" || { echo "RESULT $NAME: patch does not apply"; exit 2; }
/venv/bin/python "$D/demo.py" "$WT" >"$D/confirm_demo_patched.log" 2>&1; PATCHED=$?
/venv/bin/python -m pytest -q -p no:cacheprovider -p no:randomly --timeout=900 \
   --deselect test/simulations/test_run_infretis.py::test_restart_multiple_w >"$D/confirm_tests.log" 2>&1; TESTS=$?
if [ "$TESTS" != 0 ]; then
  # test_modify_velocity_distribition is a statistical test that fails now and then at baseline: look once more
  /venv/bin/python -m pytest -q -p no:cacheprovider -p no:randomly --timeout=900 \
     --deselect test/simulations/test_run_infretis.py::test_restart_multiple_w >"$D/confirm_tests.log" 2>&1; TESTS=$?
fi
SUMMARY=$(tail -1 "$D/confirm_tests.log")
echo "RESULT $NAME: demo_clean_exit=$CLEAN demo_patched_exit=$PATCHED tests_exit=$TESTS ($SUMMARY)"
[ "$CLEAN" = 0 ] && [ "$PATCHED" = 1 ] && [ "$TESTS" = 0 ]
