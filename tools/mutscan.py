#!/venv/bin/python
"""Mechanical mutation scan: how many small code changes that survive the repository's own tests do the checks notice?

  tools/mutscan.py <relative file> --checks C09,C10 [--n 40] [--seed 1] [--funcs shoot,wire_fencing] [--out mutation/x.jsonl]

For the given file a list of mutation sites is collected with `ast` (comparison operators, boolean operators, +-1 on small
integer constants, negated `if` tests, True/False, dropped expression statements / augmented assignments, swapped call
arguments are NOT done). `--n` sites are sampled (fixed seed), each mutant is written into a scratch copy of the package
under /dev/shm, and
  1. compiled;
  2. run against the repository's pinned test suite (-x; the test that fails at baseline and the statistical test that is
     flaky at baseline are deselected) -> "killed-by-tests" mutants are not interesting;
  3. survivors are run against the listed checks' quick tier, in order, until one reports a violation.
One JSON line per mutant is appended to --out. Nothing is written to /repo; scratch copies are removed.
"""
import ast
import copy
import json
import os
import random
import shutil
import subprocess
import sys
import tempfile
from concurrent.futures import ThreadPoolExecutor

REPO = "/repo"
DESELECT = [
    "test/simulations/test_run_infretis.py::test_restart_multiple_w",
    "test/engines/test_velocity_functions.py::test_modify_velocity_distribition",
]

CMP = {ast.Lt: ast.LtE, ast.LtE: ast.Lt, ast.Gt: ast.GtE, ast.GtE: ast.Gt, ast.Eq: ast.NotEq, ast.NotEq: ast.Eq, ast.Is: ast.IsNot, ast.IsNot: ast.Is,
       ast.In: ast.NotIn, ast.NotIn: ast.In}


class Sites(ast.NodeVisitor):
    def __init__(self, funcs):
        self.funcs = funcs
        self.stack = []
        self.sites = []  # (kind, lineno, col, extra, func)

    def visit_FunctionDef(self, node):
        self.stack.append(node.name)
        self.generic_visit(node)
        self.stack.pop()

    visit_AsyncFunctionDef = visit_FunctionDef

    def ok(self):
        if not self.stack:
            return False
        return not self.funcs or any(f in self.funcs for f in self.stack)

    def add(self, kind, node, extra=None):
        if self.ok():
            self.sites.append((kind, node.lineno, node.col_offset, extra, self.stack[-1]))

    def visit_Compare(self, node):
        for i, op in enumerate(node.ops):
            if type(op) in CMP:
                self.add("cmp", node, i)
        self.generic_visit(node)

    def visit_BoolOp(self, node):
        self.add("bool", node)
        self.generic_visit(node)

    def visit_If(self, node):
        self.add("negate-if", node)
        self.generic_visit(node)

    def visit_While(self, node):
        self.generic_visit(node)

    def visit_Constant(self, node):
        if isinstance(node.value, bool):
            self.add("flip-bool", node)
        elif isinstance(node.value, int) and 0 <= node.value <= 3:
            self.add("int+1", node)
            if node.value > 0:
                self.add("int-1", node)

    def visit_BinOp(self, node):
        if isinstance(node.op, (ast.Add, ast.Sub)):
            self.add("addsub", node)
        self.generic_visit(node)

    def visit_Expr(self, node):
        if isinstance(node.value, ast.Call) and not (isinstance(node.value.func, ast.Attribute) and node.value.func.attr in ("debug", "info", "warning", "error", "write", "print"))\
                and not (isinstance(node.value.func, ast.Name) and node.value.func.id == "print"):
            self.add("drop-call", node)
        self.generic_visit(node)

    def visit_AugAssign(self, node):
        self.add("drop-augassign", node)
        self.generic_visit(node)

    def visit_UnaryOp(self, node):
        if isinstance(node.op, ast.Not):
            self.add("drop-not", node)
        self.generic_visit(node)


class Apply(ast.NodeTransformer):
    def __init__(self, site):
        self.kind, self.line, self.col, self.extra = site[:4]
        self.done = False

    def hit(self, node):
        return not self.done and getattr(node, "lineno", None) == self.line and getattr(node, "col_offset", None) == self.col

    def visit_Compare(self, node):
        self.generic_visit(node)
        if self.kind == "cmp" and self.hit(node):
            node.ops[self.extra] = CMP[type(node.ops[self.extra])]()
            self.done = True
        return node

    def visit_BoolOp(self, node):
        self.generic_visit(node)
        if self.kind == "bool" and self.hit(node):
            node.op = ast.Or() if isinstance(node.op, ast.And) else ast.And()
            self.done = True
        return node

    def visit_If(self, node):
        self.generic_visit(node)
        if self.kind == "negate-if" and self.hit(node):
            node.test = ast.UnaryOp(op=ast.Not(), operand=node.test)
            self.done = True
        return node

    def visit_Constant(self, node):
        if self.hit(node):
            if self.kind == "flip-bool" and isinstance(node.value, bool):
                self.done = True
                return ast.copy_location(ast.Constant(value=not node.value), node)
            if self.kind == "int+1" and isinstance(node.value, int) and not isinstance(node.value, bool):
                self.done = True
                return ast.copy_location(ast.Constant(value=node.value + 1), node)
            if self.kind == "int-1" and isinstance(node.value, int) and not isinstance(node.value, bool):
                self.done = True
                return ast.copy_location(ast.Constant(value=node.value - 1), node)
        return node

    def visit_BinOp(self, node):
        self.generic_visit(node)
        if self.kind == "addsub" and self.hit(node):
            node.op = ast.Sub() if isinstance(node.op, ast.Add) else ast.Add()
            self.done = True
        return node

    def visit_Expr(self, node):
        self.generic_visit(node)
        if self.kind == "drop-call" and self.hit(node):
            self.done = True
            return ast.copy_location(ast.Pass(), node)
        return node

    def visit_AugAssign(self, node):
        self.generic_visit(node)
        if self.kind == "drop-augassign" and self.hit(node):
            self.done = True
            return ast.copy_location(ast.Pass(), node)
        return node

    def visit_UnaryOp(self, node):
        self.generic_visit(node)
        if self.kind == "drop-not" and self.hit(node) and isinstance(node.op, ast.Not):
            self.done = True
            return node.operand
        return node


def scratch(rel, source):
    d = tempfile.mkdtemp(prefix="mscan_", dir="/dev/shm")
    shutil.copytree(os.path.join(REPO, "infretis"), os.path.join(d, "infretis"), ignore=shutil.ignore_patterns("__pycache__"))
    for item in ("examples", "test", "pyproject.toml"):
        # copied, never linked: a mutant may delete or overwrite what it is pointed at (one did: it removed the GROMACS
        # example inputs of /repo through a link, which made every later test run of the scan fail at collection)
        src = os.path.join(REPO, item)
        if os.path.isdir(src):
            shutil.copytree(src, os.path.join(d, item), ignore=shutil.ignore_patterns("__pycache__"))
        elif os.path.exists(src):
            shutil.copy(src, os.path.join(d, item))
    with open(os.path.join(d, rel), "w") as fh:
        fh.write(source)
    return d


def run_tests(d):
    env = dict(os.environ, PYTHONPATH=d, PYTHONDONTWRITEBYTECODE="1")
    cmd = ["/venv/bin/python", "-m", "pytest", "-x", "-q", "-p", "no:cacheprovider", "--timeout=600"]
    for t in DESELECT:
        cmd += ["--deselect", t]
    try:
        r = subprocess.run(cmd, cwd=d, env=env, capture_output=True, text=True, timeout=1500)
    except subprocess.TimeoutExpired:
        return False, "timeout"
    tail = (r.stdout.strip().splitlines() or [""])[-1]
    return r.returncode == 0, tail[:160]


def run_check(d, pid):
    out = os.path.join(d, "out_" + pid)
    env = dict(os.environ, VERIF_REPO=d, VERIF_OUT=out)
    try:
        r = subprocess.run(["/verif/check", pid, "--tier", "quick"], env=env, capture_output=True, text=True, timeout=1800)
    except subprocess.TimeoutExpired:
        return "timeout", ""
    lines = [ln.strip() for ln in (r.stdout + r.stderr).splitlines() if ln.strip().startswith("clause")]
    verdict = {0: "missed", 1: "detected"}.get(r.returncode, f"harness-error({r.returncode})")
    return verdict, (lines[0][:220] if lines else "")


def main():
    a = sys.argv[1:]
    rel = a.pop(0)
    n, seed, funcs, checks, out = 40, 1, [], [], None
    while a:
        x = a.pop(0)
        if x == "--n": n = int(a.pop(0))
        elif x == "--seed": seed = int(a.pop(0))
        elif x == "--funcs": funcs = a.pop(0).split(",")
        elif x == "--checks": checks = a.pop(0).split(",")
        elif x == "--out": out = a.pop(0)
    out = out or os.path.join("/verif/mutation", rel.replace("/", "_") + ".jsonl")
    os.makedirs(os.path.dirname(out), exist_ok=True)
    if os.path.exists(out + ".lock"):
        print(f"{rel}: another scan has taken this file ({out}.lock): skipped", flush=True)
        return
    open(out + ".lock", "w").close()
    src = open(os.path.join(REPO, rel)).read()
    tree = ast.parse(src)
    v = Sites(funcs)
    v.visit(tree)
    sites = sorted(set(v.sites))
    rng = random.Random(seed)
    rng.shuffle(sites)
    sites = sites[:n]
    print(f"{rel}: {len(v.sites)} sites, {len(sites)} sampled", flush=True)
    mutants = []
    for s in sites:
        t = Apply(s).visit(copy.deepcopy(tree))
        ast.fix_missing_locations(t)
        try:
            code = ast.unparse(t)
            compile(code, rel, "exec")
        except Exception as exc:  # noqa: BLE001
            continue
        base = ast.unparse(tree)
        if code == base:
            continue
        changed = [b for a, b in zip(base.splitlines(), code.splitlines()) if a != b]
        mutants.append((s + ((changed[0].strip()[:160] if changed else ""),), code))
    src_lines = src.splitlines()

    def phase1(m):
        s, code = m
        d = scratch(rel, code)
        ok, tail = run_tests(d)
        return s, d, ok, tail

    with ThreadPoolExecutor(max_workers=6) as ex:
        results = list(ex.map(phase1, mutants))
    surv = 0
    with open(out, "a") as fh:
        for s, d, ok, tail in results:
            rec = {"file": rel, "kind": s[0], "line": s[1], "col": s[2], "func": s[4], "source_line": src_lines[s[1] - 1].strip()[:160], "mutated": s[5] if len(s) > 5 else "", "tests": "pass" if ok else "killed", "tests_tail": tail}
            if ok:
                surv += 1
                rec["checks"] = {}
                for pid in checks:
                    verdict, clause = run_check(d, pid)
                    rec["checks"][pid] = verdict
                    if verdict == "detected":
                        rec["clause"] = clause
                        break
                rec["verdict"] = "detected" if "detected" in rec["checks"].values() else "survived"
            else:
                rec["verdict"] = "killed-by-tests"
            shutil.rmtree(d, ignore_errors=True)
            fh.write(json.dumps(rec) + "\n")
            fh.flush()
            print(f"  {rec['verdict']:16s} {s[0]:14s} {rel}:{s[1]} {s[4]}: {rec['source_line'][:90]}", flush=True)
    print(f"{rel}: mutants={len(mutants)} survived-tests={surv}", flush=True)


main()
