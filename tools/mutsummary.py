#!/venv/bin/python
"""Summarise /verif/mutation/*.jsonl (written by tools/mutscan.py): counts per file and the list of survivors."""
import collections, glob, json, os, sys

root = os.path.join(os.path.dirname(os.path.dirname(os.path.abspath(__file__))), "mutation")
tot = collections.Counter()
rows, surv = [], []
for f in sorted(glob.glob(os.path.join(root, "*.jsonl"))):
    recs = [json.loads(l) for l in open(f) if l.strip()]
    c = collections.Counter(r["verdict"] for r in recs)
    tot.update(c)
    name = os.path.basename(f)[:-6].replace("infretis_", "").replace("classes_", "").replace("engines_", "engines/")
    rows.append((name, len(recs), c["killed-by-tests"], c["detected"], c["survived"]))
    surv += [r for r in recs if r["verdict"] == "survived"]
print("| file (functions) | mutants | killed by the repository's tests | detected by a check (quick) | survived |")
print("|---|---|---|---|---|")
for r in rows:
    print("| " + " | ".join(str(x) for x in r) + " |")
n = sum(tot.values())
print(f"| **total** | {n} | {tot['killed-by-tests']} | {tot['detected']} | {tot['survived']} |")
if "--survivors" in sys.argv:
    for r in surv:
        print(f"- {r['file'].split('/')[-1]}:{r['line']} `{r['func']}` {r['kind']}: `{r['source_line'][:90]}`" + (f" -> `{r['mutated'][:90]}`" if r.get("mutated") else ""))
