#!/venv/bin/python
"""Sensitivity helper: apply a textual mutation to a scratch copy of /repo's
package and run a check against it.

  tools/mut.py C15 infretis/classes/path.py 'reversed(path_back.phasepoints)' 'path_back.phasepoints' [--tier quick] [--part x]
  tools/mut.py C15 --patch /verif/seeded/x/patch.diff

Scratch copy lives under /dev/shm (or $TMPDIR) and is removed afterwards.
Exit code: that of the check (1 = mutant detected).
"""
import os, shutil, subprocess, sys, tempfile

def main():
    a = sys.argv[1:]
    pid = a.pop(0)
    tier, part, patch = "quick", None, None
    pos = []
    while a:
        x = a.pop(0)
        if x == "--tier": tier = a.pop(0)
        elif x == "--part": part = a.pop(0)
        elif x == "--patch": patch = a.pop(0)
        else: pos.append(x)
    base = "/dev/shm" if os.path.isdir("/dev/shm") else None
    d = tempfile.mkdtemp(prefix="mut_", dir=base)
    try:
        for item in ("infretis", "examples", "test"):
            src = os.path.join("/repo", item)
            if os.path.isdir(src) and item == "infretis":
                shutil.copytree(src, os.path.join(d, item), ignore=shutil.ignore_patterns("__pycache__"))
            elif os.path.isdir(src):
                # copied, never linked: a mutant may delete or overwrite what it is pointed at
                shutil.copytree(src, os.path.join(d, item), ignore=shutil.ignore_patterns("__pycache__"))
        if patch:
            subprocess.run(["patch", "-p1", "-s", "-d", d, "-i", os.path.abspath(patch)], check=True)
        else:
            while pos:
                f, old, new = pos.pop(0), pos.pop(0), pos.pop(0)
                p = os.path.join(d, f)
                s = open(p).read()
                if s.count(old) < 1:
                    print(f"mut: pattern not found in {f}: {old!r}"); return 3
                s = s.replace(old, new, 1)
                open(p, "w").write(s)
        env = dict(os.environ, VERIF_REPO=d, VERIF_OUT=os.path.join(d, "out"))
        cmd = ["/verif/check", pid, "--tier", tier] + (["--part", part] if part else [])
        r = subprocess.run(cmd, env=env, capture_output=True, text=True)
        out = (r.stdout + r.stderr).strip().splitlines()
        for l in out[-12:]:
            print("   ", l[:300])
        print(f"mut: exit={r.returncode} ->", "DETECTED" if r.returncode == 1 else ("NOT detected" if r.returncode == 0 else "HARNESS ERROR"))
        return r.returncode
    finally:
        shutil.rmtree(d, ignore_errors=True)

sys.exit(main())
