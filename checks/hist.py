"""Shared history machinery for C03 / C04 / C05 (and reused by C06, C07, C14, C17).

A *history case* is plain data: a lattice-engine configuration plus a list of process
lifetimes (segments). Each segment says how many steps the run is asked to reach, which
in-flight job completes next at every completion (schedule of ints, taken modulo the number
of jobs in flight), and whether the main process is killed after k completions or stops
cleanly. The real scheduler()/REPEX_state/run_md/PathStorage run in forked children; the
Observer (vlib.simdrv) keeps the reference model (in-flight set, idle counts, archived
paths, path numbers) and evaluates the invariants after every event.
"""

import os
import re

from hypothesis import strategies as st

from vlib import simdrv
from vlib.cli import digest


@st.composite
def spec_st(draw, max_n=7, min_workers=1):
    n = draw(st.sampled_from([x for x in [2, 3, 3, 4, 4, 5, 5, 6, 6, 7] if x <= max_n]))
    moves = ["sh"] + [draw(st.sampled_from(["sh", "wf"])) for _ in range(n - 1)]
    wf = [j for j in range(1, n) if moves[j] == "wf"]
    cap = None
    subcycles = draw(st.sampled_from([1, 1, 2]))
    # Precondition of the sampler (staircase weights): a path that crosses lambda_i cannot jump over
    # [lambda_i, cap). The walker moves by at most `subcycles` per frame, so the region of the top-most
    # wf ensemble must contain `subcycles` consecutive integers: cap >= max(wf) - 1/2 + subcycles.
    if wf and draw(st.booleans()):
        lo = max(wf) + subcycles - 1
        if lo <= n - 1:
            cap = draw(st.integers(lo, n - 1)) + 0.5
    workers = draw(st.sampled_from([w for w in [1, 2, 2, 3, 3, 4, 5, 6] if min(min_workers, n - 1) <= w <= n - 1]))
    ens_engs = extra = None
    if draw(st.integers(0, 3)) == 0:
        # several engine sections (as in the multi-engine / quantis layouts): one engine name per ensemble
        names = ["engine", "engb", "engc"][: draw(st.integers(2, 3))]
        ens_engs = [[draw(st.sampled_from(names))] for _ in range(n)]
        extra = sorted({e[0] for e in ens_engs} - {"engine"})
    # lambda_-1 variant of [0-] and translated copies of the whole system (cap / lambda_0 / lambda_-1 on 0.0); exact: halves
    lm1 = draw(st.sampled_from([None, None, None, -1.5, -2.5]))
    origin = draw(st.sampled_from([0.0, 0.0, 0.5, cap if cap is not None else 1.5, lm1 if lm1 is not None else -1.0]))
    return simdrv.lattice_spec(
        lm1=lm1, origin=origin, keep_side=draw(st.sampled_from([False, False, False, True])),  # companion files kept via output.keep_traj_fnames
        ensemble_engines=ens_engs, extra_engines=extra,
        n=n, moves=moves, workers=workers, steps=0, seed=draw(st.sampled_from([0, 1, 7, 2**31 + 5]) | st.integers(0, 2**32 - 1)),
        cap=cap, wall=draw(st.sampled_from([-1, -2, -4])) if lm1 is None else -4, n_jumps=draw(st.sampled_from([1, 2, 3, 6])),
        maxlength=draw(st.sampled_from([12, 40, 400])), allowmaxlength=draw(st.booleans()),
        delete_old=(dl := draw(st.sampled_from(["off", "on", "all"]))) != "off", delete_old_all=dl == "all",
        subcycles=subcycles, zeroswap=draw(st.sampled_from([None, None, 1.0, 0.0])),
        # reporting options: what is printed / logged every `screen` steps, and the worker-pattern file
        screen=draw(st.sampled_from([0, 0, 1, 3])), pattern=draw(st.sampled_from([False, False, True])),
        # QuanTIS zero swaps ([0-] on its own engine section); not together with lambda_-1 (the configuration check forbids it)
        quantis=(lm1 is None and ens_engs is None and draw(st.sampled_from([False, False, False, True]))),
        # where the paths and the data file live is the user's choice
        load_dir=draw(st.sampled_from([None, None, None, "trajs", "paths/in"])), data_dir=draw(st.sampled_from([None, None, None, "out", "./res/"])),
        int_toml=(origin in (0.5, 1.5) and draw(st.booleans())),  # with a half-integer origin the interfaces are whole numbers: written as TOML integers
    )


@st.composite
def history_st(draw, max_steps=40, max_segments=3, max_n=7, min_workers=1, kills=True, min_extend=None):
    spec = draw(spec_st(max_n=max_n, min_workers=min_workers))
    W = spec["workers"]
    nseg = draw(st.integers(1, max_segments))
    segs = []
    reached = 0
    for k in range(nseg):
        ext = W if min_extend is None else min_extend
        if k > 0 and W >= 2 and min_extend is None and draw(st.sampled_from([False, False, True])):
            # a restarted lifetime may be asked for fewer additional steps than there are workers (not the first one:
            # a fresh run with fewer steps than workers is outside the statement)
            add = draw(st.integers(1, W - 1))
        else:
            add = draw(st.integers(ext, max(ext, max_steps // nseg)))
        target = reached + add
        sched = draw(st.lists(st.integers(0, 5), min_size=0, max_size=add))
        seg = {"steps": target, "schedule": sched, "policy": draw(st.sampled_from(["random", "oldest", "newest", "straggler"])),
               "policy_seed": draw(st.integers(0, 1000))}
        if spec["zeroswap"] is not None:
            seg["zeroswap"] = spec["zeroswap"]
        if draw(st.sampled_from([True, False, False, False] if k == 0 else [True] + [False] * 7)):
            # an unrelated simulation of the same system ran to its end earlier in the same interpreter
            seg["prelude"] = {"steps": draw(st.integers(spec["workers"], 12)), "seed": draw(st.integers(0, 1000))}
        if draw(st.sampled_from([False, False, True])):
            seg["handover"] = "late"  # the runner serialises a submitted job only when the scheduler next talks to it
        if k > 0 and min_extend is None and draw(st.sampled_from([False, False, False, True])):
            # the restart runs on another allocation: any worker count the configuration allows
            seg["workers"] = draw(st.integers(1, spec["n"] - 1))
            W = seg["workers"]
        last = k == nseg - 1
        if kills and not last and draw(st.booleans()):
            # (a restarted lifetime may die before it has consumed a single result; a fresh one leaves nothing to restart from then)
            kill = draw(st.integers(0 if k > 0 else 1, add))
            seg["kill_after"] = kill
            reached = reached + kill
        else:
            reached = target
        segs.append(seg)
    return {"spec": spec, "segments": segs}


def frames(tb_text):
    """Innermost infretis frame of a traceback text -> 'file:function'."""
    hits = re.findall(r'File "[^"]*/infretis/([^"]+)", line \d+, in (\w+)', tb_text or "")
    return f"{hits[-1][0]}:{hits[-1][1]}" if hits else "?"


def run_case(case, flags, timeout=240.0):
    """Execute a history case; return (violations [(sig,msg)], summary dict)."""
    spec, segs = case["spec"], case["segments"]
    h = simdrv.run_history(spec, segs, flags, keep=True, timeout=timeout)
    d = h["rundir"]
    viol = [(s, f"[segment {k}] {m}") for s, m, k in h["viol"]]
    summ = {"stats": {}, "restarts": 0, "kills": 0, "treat": 0, "aborted": False, "trace": []}
    try:
        prev = None
        for k, r in enumerate(h["results"]):
            for key, v in r.get("stats", {}).items():
                summ["stats"][key] = summ["stats"].get(key, 0) + v
            summ["treat"] += r.get("treat_count", 0)
            if k > 0:
                summ["restarts"] += 1
            if r.get("killed"):
                summ["kills"] += 1
                if r.get("inflight_at_end"):
                    summ["stats"]["kill_with_jobs_in_flight"] = summ["stats"].get("kill_with_jobs_in_flight", 0) + 1
            if r.get("exc"):
                where, typ = r["exc"][0], r["exc"][1]
                tb = r["exc"][3] if len(r["exc"]) > 3 else ""
                site = frames(tb)
                summ["aborted"] = True
                if k > 0 and where == "setup_config" or (k > 0 and r.get("prep_count", 0) == 0 and where == "scheduler"):
                    viol.append((f"C05:restart-file-does-not-load:{typ}:{site}", f"[segment {k}] {r['exc'][2]}"))
                else:
                    viol.append((f"EXC:{typ}:{site}", f"[segment {k}] {where}: {r['exc'][2]}"))
            if r.get("config_none") and k > 0 and prev is not None:
                # a restart that refuses although steps were raised beyond cstep
                # (a lifetime killed before its first result is still at the step it started from)
                pc = prev.get("cstep_end") if prev.get("cstep_end") is not None else prev.get("cstep_start")
                if pc is not None and segs[k]["steps"] > pc:
                    viol.append(("C05:restart-refused", f"[segment {k}] setup_config returned None; previous cstep {pc} target {segs[k]['steps']}"))
            if len(summ["trace"]) < 30:
                summ["trace"] += [list(map(str, t)) for t in r.get("trace", [])[:12]]
            prev = r
        summ["final"] = final_accounting(d, dict(spec, _workers_changed=any("workers" in sg for sg in segs)), h["results"], flags, viol)
    finally:
        simdrv.isolate.rmscratch(d)
    return viol, summ


def final_accounting(d, spec, results, flags, viol):
    """C04(4): data-file rows + live fracs in the restart file == idle counts per column."""
    if not flags.get("C04") or not results:
        return {}
    carry = results[-1].get("carry", {})
    ic = carry.get("idle_count")
    cfg = simdrv.read_restart(d)
    if ic is None or cfg is None:
        return {}
    n = spec["n"]
    data_file = os.path.join(d, cfg["output"].get("data_file", "infretis_data.txt"))
    rows = simdrv.parse_data_file(data_file, n) if os.path.exists(data_file) else []
    tot = [0.0] * n
    for r in rows:
        for c in range(n):
            tot[c] += r["frac"][c]
    for pn, fr in cfg["current"].get("frac", {}).items():
        # the live paths' weights (the table behind [current.frac] is process-wide: after another simulation in the same
        # interpreter it also lists that simulation's last paths - entries no path of this simulation reads)
        if int(pn) not in [int(x) for x in cfg["current"]["active"]]:
            continue
        for c in range(n):
            tot[c] += float(fr[c])
    pns = [r["pn"] for r in rows]
    if len(set(pns)) != len(pns):
        viol.append(("C04:path-appears-twice-in-data-file", f"{sorted(p for p in set(pns) if pns.count(p) > 1)}"))
    live = cfg["current"]["active"]
    if set(live) & set(pns):
        viol.append(("C04:live-path-in-data-file", f"{sorted(set(live) & set(pns))}"))
    # only meaningful when the restart file on disk corresponds to the last completed step
    if cfg["current"]["cstep"] == carry.get("cstep"):
        for c in range(n):
            if abs(tot[c] - ic[c]) > 1e-9 * max(1, ic[c]):
                viol.append(("C04:rows-plus-live-weights-differ-from-idle-count", f"column {c}: rows+live={tot[c]!r} idle steps={ic[c]} (cstep {cfg['current']['cstep']})"))
        if spec["workers"] == 1 and not spec.get("_workers_changed") and any(x != cfg["current"]["cstep"] for x in ic):
            viol.append(("C04:one-worker-idle-count-differs-from-cstep", f"{ic} vs cstep {cfg['current']['cstep']}"))
    return {"rows": len(rows), "idle_count": ic, "column_sums": [round(t, 9) for t in tot]}


def case_key(case):
    return digest(case)
