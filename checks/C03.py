"""C03 - a busy ensemble, path, engine or work directory is never shared."""
from checks import histcheck
from vlib.hyp import run_property

FLAGS = {"C03": 1, "C02cache": 1}
strategy, body, replay = histcheck.make(
    "C03", FLAGS, ("C03:", "C02:"),
    lambda st, summ: bool(st.get("events_with>=2_in_flight") and st.get("accepted") and st.get("zero_swap_jobs")),
    extra_exc=("repex.py:lock", "repex.py:unlock", "factory.py:assign_engines"),
)


def run(ctx):
    ctx.rule = (
        "Histories = generated lattice configuration (2-7 interfaces, sh/wf moves, cap, 1..n-1 workers, delete_old, seeds, "
        "zero-swap probability) x 1-3 process lifetimes with generated completion orders, clean stops and kills; the real "
        "scheduler/REPEX_state/run_md run in forks with a deterministic runner. After every pick and every treat_output the "
        "in-flight model is compared with the lock marks, slots, weights, engine occupation and worker directories. "
        "Non-trivial: history with >=2 jobs in flight at some event and >=1 accepted move and >=1 zero-swap job. Distinct = digest of the case. Additionally an exhaustive in-memory exploration (checks/enumsys.py) of small systems (3-4 interfaces; thorough: up to 5): every completion order x every move outcome from {reject, accept-minimal, accept-far} x every result of the scheduler's random choices, run to closure of the reachable (weight matrix, busy marks, in-flight jobs) states with the same invariants; in every state also a kill + restart from the last restart record (the restarted run's picks are enumerated too and its states join the exploration)."
    )
    ctx.assumptions = ["lazy execution at completion time is equivalent to concurrent execution because workers share nothing (that is what this check verifies)"]
    from checks import enumsys

    enumsys.run_enum(ctx, dict(FLAGS), ("C03:", "C02:"), ("repex.py:lock", "repex.py:unlock", "assign_engines", "AssertionError"))
    run_property(ctx, "history", strategy, body, ctx.pick(1200, 12000), shards=ctx.procs, shrink=not ctx.quick)
