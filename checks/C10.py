"""C10 - wire-fencing weights: exact, symmetric, drive segment choice."""

import math
from fractions import Fraction

from hypothesis import strategies as st

from vlib.cli import Violation
from vlib.hyp import run_property
from vlib.oracles import wfweight as ref

# grid with interface values, neighbours, far values
GRID = [-1.0, -0.25, 0.0, 0.1, 0.25, 0.5, 0.75, 1.0, 1.25, 1.5, 2.0, 2.5, 3.0]


def orders_st(maxn=40):
    val = st.sampled_from(GRID)
    return st.lists(val, min_size=2, max_size=maxn)


@st.composite
def excursions_st(draw, maxn=40):
    """Constructive generator: (orders, [left, right]) built from excursions
    around a drawn region so that several qualifying sub-paths are common."""
    i = draw(st.integers(1, len(GRID) - 3))
    j = draw(st.integers(i, len(GRID) - 2))
    if j == i and draw(st.integers(0, 9)) > 0:
        j = i + 1
    left, right = GRID[i], GRID[j]
    below = [g for g in GRID if g < left]
    inside = [g for g in GRID if left <= g < right]
    above = [g for g in GRID if g >= right]
    orders = []
    nexc = draw(st.integers(1, 5))
    out_pool = {"L": below, "R": above}
    orders += [draw(st.sampled_from(out_pool[draw(st.sampled_from("LR"))])) for _ in range(draw(st.integers(0, 2)))]
    for _ in range(nexc):
        if inside:
            orders += [draw(st.sampled_from(inside)) for _ in range(draw(st.integers(1, 4)))]
        orders += [draw(st.sampled_from(out_pool[draw(st.sampled_from("LLR"))])) for _ in range(draw(st.integers(1, 2)))]
    if len(orders) < 2:
        orders.append(draw(st.sampled_from(GRID)))
    return orders[:maxn], [left, right]


def olr_st(maxn=40):
    """(orders, lr): half grid-random, half constructive."""
    rnd = st.tuples(orders_st(maxn), st.lists(st.sampled_from(GRID), min_size=2, max_size=2).map(sorted))
    return st.one_of(rnd, excursions_st(maxn)).map(list)


class ScriptRng:
    """A job stream whose random() values come from the generated case."""

    def __init__(self, vals):
        self.vals = list(vals)
        self.n = 0

    def random(self):
        self.n += 1
        return self.vals.pop(0)


def mk_path(orders):
    from infretis.classes.path import Path
    from infretis.classes.system import System

    p = Path(maxlen=1000)
    for i, o in enumerate(orders):
        s = System()
        s.order = [o]
        s.config = ("f", i)
        p.phasepoints.append(s)
    p.status = "ACC"
    p.time_origin = 5
    return p


# ------------------------------------------------------------------ weight
def weight_cases():
    return st.fixed_dictionaries(
        {
            "olr": olr_st(),
            "outer": st.sampled_from([-0.25, 0.0, 0.1, 0.25]),
            "u": st.floats(0, 1, exclude_max=True),
            "m": st.integers(0, 400),
            # frames a hair's breadth from an interface: (frame index, which interface, offset kind)
            "near": st.lists(st.tuples(st.integers(0, 39), st.sampled_from(["left", "right"]), st.sampled_from(["ulp-", "ulp+", "-1e-9", "+1e-9", "-3e-8", "+3e-8"])), max_size=3),
        }
    )


def nudge(o, left, right, near):
    """Replace frames by values just below / above an interface (double precision matters: 1 ulp, 1e-9, 3e-8)."""
    o = list(o)
    for idx, which, kind in near or []:
        if not o:
            break
        x = left if which == "left" else right
        i = idx % len(o)
        if kind == "ulp-":
            o[i] = math.nextafter(x, -math.inf)
        elif kind == "ulp+":
            o[i] = math.nextafter(x, math.inf)
        else:
            o[i] = x + float(kind)
    return o


def nontrivial_weight(o, left, right):
    segs = ref.qualifying(o, left, right)
    rr = any(p == "R" and s == "R" for _, _, p, s in ref.runs(o, left, right))
    on = any(x in (left, right) for x in o)
    return len(segs) >= 2 or rr or ref.jumps_over(o, left, right) or on


def body_weight(rec, c):
    from infretis.core.tis import compute_weight, wirefence_weight_and_pick

    o, (left, right) = c["olr"]
    o = nudge(o, left, right, c.get("near"))
    path = mk_path(o)
    segs = ref.qualifying(o, left, right)
    want = sum(s[2] for s in segs)
    classes = ["weight"] + (["w:frame-within-3e-8-of-an-interface"] if c.get("near") else [])
    if len(segs) >= 2:
        classes.append("w:multi-seg")
    if ref.jumps_over(o, left, right):
        classes.append("w:jump-over")
    if any(x in (left, right) for x in o):
        classes.append("w:on-interface")
    if any(p == "R" and s == "R" for _, _, p, s in ref.runs(o, left, right)):
        classes.append("w:RR-run")
    if left == right:
        classes.append("w:empty-region")
    nt = nontrivial_weight(o, left, right)
    rec.case(key=c, nontrivial=nt, classes=classes,
             sample={"orders": o, "left": left, "right": right, "weight": want} if nt and len(o) < 9 else None)
    got, empty = wirefence_weight_and_pick(path, left, right)
    rec.check(got == want, "wf:weight", f"orders={o} [{left},{right}) got {got} want {want}")
    rec.check(empty.length == 0, "wf:noseg-nonempty")
    # (2) time reversal
    got_r, _ = wirefence_weight_and_pick(mk_path(o[::-1]), left, right)
    rec.check(got_r == got, "wf:reversal", f"orders={o} [{left},{right}) fwd {got} rev {got_r}")
    # (3) positivity
    rec.check((got > 0) == (len(segs) > 0), "wf:positive-iff")
    # (4) compute_weight: doubling when the path connects the two outer sides
    l0 = min(c["outer"], left)
    cap = right
    if l0 <= cap:
        # only claimed for paths whose end points are strictly outside (unambiguous sides)
        s_out = o[0] < l0 or o[0] > cap
        e_out = o[-1] < l0 or o[-1] > cap
        if s_out and e_out:
            s_side = "L" if o[0] < l0 else "R"
            e_side = "L" if o[-1] < l0 else "R"
            cw = compute_weight(path, [l0, left, cap], "wf")
            factor = 2 if s_side != e_side else 1
            rec.cls("cw:double" if factor == 2 else "cw:single")
            rec.check(cw == want * factor, "wf:compute_weight", f"orders={o} intf={[l0,left,cap]} got {cw} want {want*factor}")
            rec.check(compute_weight(path, [l0, left, cap], "sh") == 1.0, "wf:sh-weight-not-1")
    # (6) selection by scripted draw
    if segs:
        n = want
        # boundary-targeted u: thresholds cum_j/n  +- tiny, and the hypothesis u
        cums = []
        tot = 0
        for s in segs:
            tot += s[2]
            cums.append(tot)
        us = [c["u"]]
        k = c["m"] % len(segs)
        thr = cums[k] / n
        us += [max(0.0, thr - 1e-9), min(thr + 1e-9, 0.999999999)]
        if k > 0:
            us.append((cums[k - 1] + cums[k]) / (2 * n))
        for u in us:
            rng = ScriptRng([u])
            got_n, seg = wirefence_weight_and_pick(path, left, right, return_seg=True, ens_set={"rgen": rng})
            rec.check(got_n == want, "wf:weight-with-seg")
            rec.check(rng.n == 1, "wf:draws", f"{rng.n} draws")
            uf = Fraction(u)
            allowed = []
            for j, cj in enumerate(cums):
                if Fraction(cj, n) >= uf:
                    allowed.append(j)
                    break
            # ties accept either neighbour (measure zero): exact equality, or equality after float rounding (the draw 0.1 is not 1/10,
            # but 0.1 * 10 == 1.0 in floating point, which is what the code computes)
            eps = Fraction(1, 2**48)
            for j, cj in enumerate(cums):
                if abs(Fraction(cj, n) - uf) <= eps:
                    allowed += [x for x in (j, j + 1) if x < len(cums)]
            idxs = [pp.config[1] for pp in seg.phasepoints]
            ok = any(idxs == list(range(segs[j][0], segs[j][1] + 1)) for j in allowed)
            rec.check(ok, "wf:selection", f"orders={o} [{left},{right}) u={u} picked frames {idxs}, allowed segs {[segs[j] for j in allowed]}")
            rec.check(
                all(a is path.phasepoints[i] for a, i in zip(seg.phasepoints, idxs)),
                "wf:segment-frames-copied",
            )
            rec.check(seg.time_origin == path.time_origin and seg.status == path.status, "wf:segment-attrs")
            rec.cls("sel:checked")
    else:
        rng = ScriptRng([0.3])
        got_n, seg = wirefence_weight_and_pick(path, left, right, return_seg=True, ens_set={"rgen": rng})
        rec.check(got_n == 0 and seg.length == 0, "wf:seg-from-zero-weight")


# ------------------------------------------------ selection frequencies
def freq_cases():
    return st.fixed_dictionaries(
        {"olr": olr_st(24), "M": st.integers(1, 3)}
    )


def body_freq(rec, c):
    from infretis.core.tis import wirefence_weight_and_pick

    o, (left, right) = c["olr"]
    segs = ref.qualifying(o, left, right)
    n = sum(s[2] for s in segs)
    rec.case(key=c, nontrivial=len(segs) >= 2, classes=["freq", f"freq:segs={min(len(segs),4)}"])
    if not segs:
        return
    path = mk_path(o)
    M = c["M"]
    counts = {}
    for m in range(M * n):
        u = (m + 0.5) / (M * n)
        _, seg = wirefence_weight_and_pick(path, left, right, return_seg=True, ens_set={"rgen": ScriptRng([u])})
        key = (seg.phasepoints[0].config[1], seg.phasepoints[-1].config[1])
        counts[key] = counts.get(key, 0) + 1
    want = {(s[0], s[1]): M * s[2] for s in segs}
    rec.check(counts == want, "wf:selection-law", f"orders={o} [{left},{right}) counts {counts} want {want}")


# ------------------------------------------------------------- cv vector
def cv_cases():
    return st.fixed_dictionaries(
        {
            "orders": orders_st(30),
            "nintf": st.integers(2, 6),
            "moves": st.lists(st.sampled_from(["sh", "wf"]), min_size=7, max_size=7),
            "cap": st.one_of(st.none(), st.sampled_from([1.0, 1.25, 1.5, 2.0, 2.5, 3.0])),
            # (a value written without a decimal point in the TOML file arrives as an integer)
            "lm1": st.one_of(st.just(False), st.sampled_from([-1.0, -0.25, -1, -2])),
            "minus": st.booleans(),
            # the same system translated along the order-parameter axis (all values are multiples of 1/4: exact); the
            # negatives of the cap values put the cap, an interface or lambda_-1 on 0.0
            "shift": st.sampled_from([0.0, 0.0, -1.0, -1.25, -1.5, -2.0, -2.5, -3.0, 0.25, 1.0]),
            # a move list longer than the interface list is legal (only a shorter one is rejected): the surplus entries mean nothing
            "extra_moves": st.lists(st.sampled_from(["sh", "wf"]), max_size=2),
        }
    )


INTF_POOL = [0.0, 0.25, 0.5, 1.0, 1.5, 2.5]


def body_cv(rec, c):
    from infretis.core.tis import calc_cv_vector

    o = list(c["orders"])
    intf = INTF_POOL[: c["nintf"] - 1] + [3.0]
    # a plus path as the sampler holds them: starts (and ends) strictly outside
    if not c["minus"]:
        o[0] = -1.0
        o[-1] = -1.0 if (len(o) % 2) else 3.5
        if o[-1] == 3.0 and c["cap"] is not None:
            pass
    moves = ["sh"] + c["moves"][: len(intf) - 1] + ["sh"]
    moves = moves[: len(intf)]
    while len(moves) < len(intf):
        moves.append("sh")
    call_moves = moves + list(c.get("extra_moves", []))
    path = mk_path(o)
    mx = max(o)
    cap = c["cap"]
    if cap is not None and not (intf[0] < cap <= intf[-1]):
        cap = None
    sh = c.get("shift", 0.0)
    if sh:
        path = mk_path([x + sh for x in o])
    lm1v = False
    if c["lm1"] is not False:
        lm1v = c["lm1"] + sh
        if isinstance(c["lm1"], int) and float(sh).is_integer():
            lm1v = int(lm1v)  # stays an integer under a whole-number translation
    got = calc_cv_vector(path, [x + sh for x in intf], call_moves, lambda_minus_one=lm1v,
                         cap=(cap + sh if cap is not None else None), minus=c["minus"])
    on = any(x in intf for x in o)
    rec.case(key=c, nontrivial=("wf" in moves[1:]) or on, classes=["cv", "cv:minus" if c["minus"] else "cv:plus"]
             + (["cv:cap-at-0.0"] if cap is not None and cap + sh == 0.0 else []) + (["cv:translated"] if sh else []),
             sample={"orders": o, "interfaces": intf, "moves": moves, "cap": cap, "cv": list(got)} if len(o) < 8 else None)
    if c["minus"]:
        lam = c["lm1"] if c["lm1"] is not False else intf[0]
        rec.check(got == ((1.0,) if lam <= mx else (0.0,)), "cv:minus", f"{got} orders={o}")
        return
    rec.check(len(got) == len(intf), "cv:length")
    rec.check(got[-1] == 0.0, "cv:last-not-zero")
    for k, lam in enumerate(intf[:-1]):
        if moves[k + 1] == "wf":
            right = cap if cap is not None else intf[-1]
            w = ref.wf_weight(o, lam, right)
            l0 = intf[0]
            s_side = "L" if o[0] < l0 else "R"
            e_side = "L" if o[-1] < l0 else ("R" if o[-1] > right else "M")
            if e_side == "M":
                rec.cls("cv:end-between-cap-and-top")
                continue  # end point between cap and last interface: side not defined by the statement
            want = w * (2 if s_side != e_side else 1)
            rec.check(got[k] == want, "cv:wf-entry", f"k={k} got {got[k]} want {want} orders={o} intf={intf} cap={cap}")
        else:
            want = 1.0 if lam <= mx else 0.0
            rec.check(got[k] == want, "cv:sh-entry", f"k={k} got {got[k]} want {want} orders={o}")


# --------------------------------------------------------- high acc swap
def has_cases():
    return st.fixed_dictionaries(
        {
            "p_new": st.lists(st.sampled_from([-1.0, 0.0, 0.25, 0.5, 0.75, 1.0, 1.25, 1.5, 3.5]), min_size=3, max_size=14),
            "p_old": st.lists(st.sampled_from([-1.0, 0.0, 0.25, 0.5, 0.75, 1.0, 1.25, 1.5, 3.5]), min_size=3, max_size=14),
            "moves": st.sampled_from([["sh", "wf"], ["sh", "sh"]]),
            "cap": st.sampled_from([1.0, 1.5, 2.0, 3.0]),
            "u": st.floats(0, 1, exclude_max=True),
            "near": st.sampled_from([-1, 0, 1, 2]),
            "shift": st.sampled_from([0.0, 0.0, -1.0, -1.5, -2.0, -3.0, 0.5]),
        }
    )


def body_has(rec, c):
    from infretis.core.tis import high_acc_swap

    l0 = 0.0
    intf0 = [-10.0, l0, l0]  # [0-] : (-inf, l0, l0) with cap substituted at [2] when present in tis_set
    intf0[2] = c["cap"]
    intf1 = [l0, l0, c["cap"]]
    pa, pb = list(c["p_new"]), list(c["p_old"])
    for p in (pa, pb):
        p[0], p[-1] = -1.0, (-1.0 if len(p) % 2 else 3.5)

    def cw(o, intf, move):
        w = 1.0
        if move == "wf":
            w = 1.0 * ref.wf_weight(o, intf[1], intf[2])
        s = "L" if o[0] < intf[0] else "R"
        e = "L" if o[-1] < intf[0] else "R"
        if s != e and move == "wf":
            w *= 2
        return w

    c1o, c2o = cw(pa, intf0, c["moves"][0]), cw(pb, intf1, c["moves"][1])
    c1n, c2n = cw(pb, intf0, c["moves"][0]), cw(pa, intf1, c["moves"][1])
    if c1o == 0 or c2o == 0:
        pacc = None
    else:
        pacc = Fraction(c1n) * Fraction(c2n) / (Fraction(c1o) * Fraction(c2o))
    u = c["u"]
    if pacc is not None and 0 < pacc < 1 and c["near"] != 2:
        import math
        base = float(pacc)
        u = {-1: math.nextafter(base, 0.0), 0: base, 1: math.nextafter(base, 1.0)}[c["near"]]
    rng = ScriptRng([u])
    sh = c.get("shift", 0.0)  # translated system: same weights, same decision
    acc, status = high_acc_swap([mk_path([x + sh for x in pa]), mk_path([x + sh for x in pb])], rng, [x + sh for x in intf0], [x + sh for x in intf1], c["moves"])
    nt = pacc is not None and 0 < pacc < 1
    rec.case(key=c, nontrivial=nt, classes=["has", "has:frac" if nt else "has:trivial"] + (["has:cap-at-0.0"] if c["cap"] + sh == 0.0 else []))
    rec.check(rng.n == 1, "has:draws")
    rec.check((status == "ACC") == bool(acc) and status in ("ACC", "HAS"), "has:status")
    if pacc is None:
        rec.check(acc, "has:zero-old-weight-not-accepted")
    else:
        # weights are small integers: the float quotient is the correctly rounded exact ratio
        want = u < (c1n * c2n / (c1o * c2o))
        rec.check(bool(acc) == want, "has:rule", f"u={u} pacc={pacc} got {acc}")


PARTS = {
    "weight": (weight_cases, body_weight),
    "freq": (freq_cases, body_freq),
    "cv": (cv_cases, body_cv),
    "has": (has_cases, body_has),
}


def run(ctx):
    ctx.rule = (
        "Hypothesis order sequences on a grid containing the interface values and their neighbours; left<=right pairs "
        "(incl. left==right); weight vs run-segmentation reference, on the reversed list, selection for scripted draws "
        "(incl. threshold +-1e-9 and mid-points), exact selection counts over the grid u=(m+.5)/(M n), calc_cv_vector, "
        "high_acc_swap at pacc +-1 ulp. Non-trivial: >=2 qualifying sub-paths, a right-right excursion, a jump over the "
        "region, or a value equal to an interface (weight); >=2 segments (freq); a wf column or on-interface value (cv); "
        "0<pacc<1 (has). Distinct = digest of the case."
    )
    ctx.assumptions = [
        "compute_weight doubling is checked for paths whose end points are strictly outside [lambda_0, cap] (sides unambiguous)",
        "ties u == cum_j/n accept either neighbouring segment",
    ]
    n = ctx.pick(3000, 60000)
    run_property(ctx, "weight", weight_cases, body_weight, n)
    run_property(ctx, "freq", freq_cases, body_freq, ctx.pick(800, 12000))
    run_property(ctx, "cv", cv_cases, body_cv, n)
    run_property(ctx, "has", has_cases, body_has, n)
    # the weight vector of paths as the moves hand them back (built piecewise: pasted, reversed, extended), not only of
    # hand-made ones: C09's wire-fencing machinery run through run_md, whose weight-vector clause is C10's definition
    from checks import C09

    run_property(ctx, "moves", wf_move_cases, C09.body_wf, ctx.pick(1500, 20000))


@st.composite
def wf_move_cases(draw):
    from checks import C09

    c = draw(C09.wf_cases())
    c["via_run_md"] = True
    if c.get("other_moves") is None:
        c["other_moves"] = draw(st.lists(st.sampled_from(["sh", "wf"]), min_size=4, max_size=4))
    return c


def replay(ctx, data):
    if data["part"] == "moves":
        from checks import C09

        strat, body = wf_move_cases, C09.body_wf
    else:
        strat, body = PARTS[data["part"]]
    try:
        body(ctx, data["case"])
    except Violation as v:
        ctx.violation(v.signature, v.message, data)
