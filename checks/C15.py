"""C15 - path algebra: paste, reverse, copy, classification vs a list model."""

from hypothesis import strategies as st

from vlib.cli import Violation
from vlib.hyp import run_property

GRID = [-2.0, -1.0, -0.5, 0.0, 0.25, 0.5, 1.0, 1.5, 2.0, 3.0]


def frame_st():
    return st.tuples(
        st.sampled_from(GRID) | st.floats(-3, 4, allow_nan=False, width=32),
        st.integers(0, 3),  # file id
        st.integers(0, 20),  # frame index in file
        st.booleans(),  # vel_rev
    ).map(list)


def seg_st(maxn=30):
    return st.lists(frame_st(), min_size=0, max_size=maxn)


# ----------------------------------------------------------------------
def mk_system(fr):
    from infretis.classes.system import System

    s = System()
    s.order = [fr[0], 7.0]
    s.config = (f"/x/file{fr[1]}.xyz", fr[2])
    s.vel_rev = bool(fr[3])
    s.pos = [abs(fr[0]) + 1.0]
    return s


def mk_path(frames, maxlen, time_origin=0):
    from infretis.classes.path import Path

    p = Path(maxlen=maxlen, time_origin=time_origin)
    for fr in frames:
        p.phasepoints.append(mk_system(fr))
    return p


def view(path):
    return [
        [pp.order[0], pp.config[0], pp.config[1], bool(pp.vel_rev)]
        for pp in path.phasepoints
    ]


def model(frames):
    return [[f[0], f"/x/file{f[1]}.xyz", f[2], bool(f[3])] for f in frames]


# ---------------------------------------------------------------- paste
def paste_cases():
    return st.fixed_dictionaries(
        {
            "back": seg_st(),
            "forw": seg_st(),
            "overlap": st.booleans(),
            "maxlen": st.one_of(st.none(), st.integers(1, 70)),
            "ml_back": st.integers(1, 80),
            "ml_forw": st.integers(1, 80),
            "to": st.integers(-50, 50),
        }
    )


def body_paste(rec, c):
    from infretis.classes.path import paste_paths

    back = mk_path(c["back"], c["ml_back"], c["to"])
    forw = mk_path(c["forw"], c["ml_forw"], c["to"])
    ids_back = [id(p) for p in back.phasepoints]
    vb, vf = view(back), view(forw)
    new = paste_paths(back, forw, overlap=c["overlap"], maxlen=c["maxlen"])
    lim = c["maxlen"]
    if lim is None:
        lim = max(c["ml_back"], c["ml_forw"])
    full = list(reversed(model(c["back"]))) + model(c["forw"])[
        (1 if c["overlap"] else 0) :
    ]
    want = full[:lim]
    got = view(new)
    truncated = len(full) > lim
    nt = truncated or (c["overlap"] and len(c["back"]) > 0 and len(c["forw"]) > 0)
    rec.case(
        key=c,
        nontrivial=nt,
        classes=["paste", "paste:trunc" if truncated else "paste:fit"],
        sample={"op": "paste", **c} if nt else None,
    )
    rec.check(got == want, "paste:frames", f"got {got} want {want}")
    rec.check(new.length <= lim, "paste:maxlen", f"{new.length}>{lim}")
    rec.check(new.maxlen == lim, "paste:maxlen-attr", f"{new.maxlen}!={lim}")
    rec.check(
        new.time_origin == c["to"] - len(c["back"]) + 1,
        "paste:time_origin",
        f"{new.time_origin}",
    )
    if c["back"] and want:
        rec.check(
            new.phasepoints[0] is back.phasepoints[-1]
            or view(new)[0] == vb[-1],
            "paste:first-is-last-back",
        )
    # inputs untouched
    rec.check(
        view(back) == vb and view(forw) == vf and ids_back == [id(p) for p in back.phasepoints],
        "paste:inputs-mutated",
    )


# -------------------------------------------------------------- reverse
class VelOP:
    """Order parameter that depends on the velocity direction."""

    velocity_dependent = True

    def calculate(self, system):
        sign = -1.0 if system.vel_rev else 1.0
        return [sign * system.pos[0], 7.0]


class PosOP:
    velocity_dependent = False

    def calculate(self, system):  # pragma: no cover - must not be called
        raise AssertionError("order recomputed for a position-type parameter")


def rev_cases():
    return st.fixed_dictionaries(
        {
            "frames": seg_st(),
            "op": st.sampled_from(["none", "pos", "vel"]),
            "rev_v": st.booleans(),
            "maxlen": st.integers(30, 80),
        }
    )


def body_reverse(rec, c):
    path = mk_path(c["frames"], c["maxlen"])
    path.weights = (1.0, 0.0)
    opf = {"none": None, "pos": PosOP(), "vel": VelOP()}[c["op"]]
    if c["op"] == "vel":
        for pp in path.phasepoints:
            pp.order = opf.calculate(pp)
    before = view(path)
    r1 = path.reverse(opf, rev_v=c["rev_v"])
    rec.case(
        key=c,
        nontrivial=len(c["frames"]) >= 2,
        classes=["reverse", "reverse:" + c["op"]],
        sample={"op": "reverse", **c} if len(c["frames"]) in (2, 3) else None,
    )
    rec.check(view(path) == before, "reverse:input-mutated")
    want = []
    for o, f, i, v in reversed(before):
        nv = (not v) if c["rev_v"] else v
        no = o
        if c["op"] == "vel" and c["rev_v"]:
            no = -o if o != 0 else o
        want.append([no, f, i, nv])
    got = view(r1)
    ok = len(got) == len(want) and all(
        g[1:] == w[1:] and (g[0] == w[0]) for g, w in zip(got, want)
    )
    rec.check(ok, "reverse:frames", f"got {got} want {want}")
    rec.check(r1.weights == path.weights, "reverse:weights")
    r2 = r1.reverse(opf, rev_v=c["rev_v"])
    rec.check(view(r2) == before, "reverse:involution", f"{view(r2)} vs {before}")
    rec.check(
        all(a is not b for a, b in zip(r2.phasepoints, path.phasepoints)),
        "reverse:shares-frames",
    )


# ----------------------------------------------------------------- copy
def copy_cases():
    return st.fixed_dictionaries(
        {
            "frames": st.lists(frame_st(), min_size=1, max_size=20),
            "which": st.integers(0, 19),
            "field": st.sampled_from(["order", "config", "vel_rev", "vpot", "ekin", "pos", "vel", "box"]),
            "extra": seg_st(5),
            "maxlen": st.integers(1, 40),
            # a path that holds more frames than its own limit: load_path fills the frame list directly and
            # load_paths_from_disk lowers maxlen to the configured maxlength afterwards
            "overlong": st.sampled_from([False, False, True]),
        }
    )


def body_copy(rec, c):
    if c.get("overlong") and len(c["frames"]) > c["maxlen"]:
        path = mk_path(c["frames"], 100, 3)
        path.maxlen = c["maxlen"]
        before = view(path)
        cp = path.copy()
        rec.case(key=c, nontrivial=True, classes=["copy", "copy:path-longer-than-its-limit"], sample=None)
        vc = view(cp)
        rec.check(vc == before[: len(vc)], "copy:frames-of-an-over-long-path", f"{len(vc)} frames of {len(before)}")
        own = {id(fr) for fr in path.phasepoints}
        shared = [j for j, fr in enumerate(cp.phasepoints) if id(fr) in own]
        rec.check(not shared, "copy:original-changed", f"the copy of a path of {len(before)} frames with maxlen {c['maxlen']} holds the original's own frame objects at {shared[:5]}")
        for j, fr in enumerate(cp.phasepoints):
            fr.order = [77.0 + j]
            fr.vel_rev = not fr.vel_rev
        rec.check(view(path) == before, "copy:original-changed", "frames of the original differ after every frame of the copy was re-assigned (over-long path)")
        return
    frames = c["frames"][: c["maxlen"]]
    path = mk_path(frames, c["maxlen"], 3)
    path.status, path.generated, path.path_number = "ACC", ("sh", 0.1, 2, 3), 11
    path.weights = (1.0, 2.0, 0.0)
    before = view(path)
    cp = path.copy()
    rec.case(key=c, nontrivial=True, classes=["copy"], sample=None)
    rec.check(view(cp) == before, "copy:frames")
    rec.check(
        (cp.status, cp.generated, cp.path_number, cp.weights, cp.maxlen, cp.time_origin)
        == ("ACC", ("sh", 0.1, 2, 3), 11, (1.0, 2.0, 0.0), c["maxlen"], 3),
        "copy:attributes",
    )
    k = c["which"] % len(frames)
    orig_vals = {f: getattr(path.phasepoints[k], f) for f in ("order", "config", "vel_rev", "vpot", "ekin", "pos", "vel", "box")}
    new_val = {"order": [99.0], "config": ("/y/other", 5), "vel_rev": not path.phasepoints[k].vel_rev,
               "vpot": 1.5, "ekin": 2.5, "pos": [1, 2], "vel": [3], "box": None}[c["field"]]
    # extremes / classification are functions of the frames as they are now: look, re-assign, look again
    ext0 = (cp.ordermax[0], cp.ordermin[0], path.ordermax[0], path.ordermin[0])
    cls0 = path.check_interfaces([-1.0, 0.0, 1.0])
    setattr(cp.phasepoints[k], c["field"], new_val)
    for f, v in orig_vals.items():
        rec.check(getattr(path.phasepoints[k], f) is v, "copy:original-changed", f)
    ocp = [fr.order[0] for fr in cp.phasepoints]
    rec.check(cp.ordermax[0] == max(ocp) and cp.ordermin[0] == min(ocp) and cp.phasepoints[cp.ordermax[1]].order[0] == max(ocp) and cp.phasepoints[cp.ordermin[1]].order[0] == min(ocp),
              "copy:extremes-of-the-copy-do-not-follow-its-frames", f"orders {ocp}: ordermax {cp.ordermax} ordermin {cp.ordermin} (before the re-assignment {ext0[:2]})")
    rec.check((path.ordermax[0], path.ordermin[0]) == ext0[2:] and path.check_interfaces([-1.0, 0.0, 1.0]) == cls0, "copy:extremes-of-the-original-changed", f"{path.ordermax} {path.ordermin} vs {ext0[2:]}")
    if c["field"] == "order":
        rec.cls("copy:order-re-assigned-after-a-look-at-the-extremes")
        want_cross = [min(ocp) < x <= max(ocp) for x in (-1.0, 0.0, 98.0)]
        got = cp.check_interfaces([-1.0, 0.0, 98.0])
        rec.check([bool(x) for x in got[3]] == want_cross, "copy:classification-of-the-copy-does-not-follow-its-frames", f"orders {ocp}: crossings {got[3]} want {want_cross}")
    # growing / shrinking the copy leaves the original
    for fr in c["extra"]:
        cp.append(mk_system(fr))
    rec.check(view(path) == before, "copy:original-list-changed")
    # append / += respect maxlen
    rec.check(cp.length <= c["maxlen"], "append:maxlen", f"{cp.length}>{c['maxlen']}")
    other = mk_path(c["extra"], 100)
    tgt = path.copy()
    n0 = tgt.length
    tgt += other
    want = (before + model(c["extra"]))[: max(c["maxlen"], n0)]
    rec.check(view(tgt) == want, "iadd:frames", f"{view(tgt)} vs {want}")
    rec.check(
        all(a is not b for a, b in zip(tgt.phasepoints[n0:], other.phasepoints)),
        "iadd:shares-frames",
    )


# ------------------------------------------------------- classification
def cls_cases():
    val = st.sampled_from(GRID) | st.floats(-3, 4, allow_nan=False, width=32)
    return st.fixed_dictionaries(
        {
            "orders": st.lists(val, min_size=1, max_size=30),
            "intf": st.lists(st.sampled_from(GRID), min_size=3, max_size=3).map(sorted),
        }
    )


def body_cls(rec, c):
    frames = [[o, 0, i, False] for i, o in enumerate(c["orders"])]
    path = mk_path(frames, 100)
    o = c["orders"]
    left, mid, right = c["intf"]
    on_intf = any(x in c["intf"] for x in o)
    rec.case(
        key=c,
        nontrivial=on_intf,
        classes=["classify", "classify:on-interface" if on_intf else "classify:off"],
        sample={"op": "classify", **c} if on_intf and len(o) < 6 else None,
    )
    # a path without frames (what empty_path() returns before anything is appended) classifies as nothing crossed
    ep = path.empty_path()
    rec.check(tuple(ep.check_interfaces(c["intf"])[:3]) == (None, None, "*") and [bool(x) for x in ep.check_interfaces(c["intf"])[3]] == [False, False, False],
              "cls:empty-path", f"{ep.check_interfaces(c['intf'])}")
    mn, mx = min(o), max(o)
    rec.check(path.ordermin[0] == mn and o[int(path.ordermin[1])] == mn, "cls:ordermin")
    rec.check(path.ordermax[0] == mx and o[int(path.ordermax[1])] == mx, "cls:ordermax")
    rec.check(int(path.ordermin[1]) == o.index(mn) and int(path.ordermax[1]) == o.index(mx), "cls:first-extreme-index")
    start, end, middle, cross = path.check_interfaces(c["intf"])
    w_start = "L" if o[0] <= left else ("R" if o[0] >= right else "?")
    w_end = "L" if o[-1] <= left else ("R" if o[-1] >= right else None)
    w_cross = [mn < x <= mx for x in c["intf"]]
    rec.check(start == w_start, "cls:start", f"{start} vs {w_start} {c}")
    rec.check(end == w_end, "cls:end", f"{end} vs {w_end} {c}")
    rec.check(list(cross) == w_cross, "cls:cross", f"{cross} vs {w_cross}")
    rec.check(middle == ("M" if w_cross[1] else "*"), "cls:middle")
    rec.check(path.get_start_point(left, right) == w_start, "cls:get_start")
    rec.check(path.get_end_point(left, right) == w_end, "cls:get_end")
    # single-interface form
    s1 = "L" if o[0] <= mid else "R"
    e1 = "L" if o[-1] <= mid else "R"
    rec.check(path.get_start_point(mid) == s1, "cls:get_start1")
    rec.check(path.get_end_point(mid) == e1, "cls:get_end1")
    rec.check(path.success(mid) == (mx > mid), "cls:success")
    rec.check(path.length == len(o), "cls:length")
    rec.check(path.adress == {"/x/file0.xyz"}, "cls:adress")


PARTS = {
    "paste": (paste_cases, body_paste),
    "reverse": (rev_cases, body_reverse),
    "copy": (copy_cases, body_copy),
    "classify": (cls_cases, body_cls),
}


def run(ctx):
    ctx.rule = (
        "Hypothesis cases (plain data) for paste_paths / Path.reverse / Path.copy+append+iadd / "
        "check_interfaces & co, compared with a list model. Non-trivial: paste that truncated or "
        "overlap with both segments non-empty; reverse of >=2 frames; every copy case; "
        "classification with an order value equal to an interface. Distinct = digest of the case."
    )
    ctx.assumptions = ["frames are System objects as load_path/engines build them (order list, config tuple, vel_rev bool)"]
    n = ctx.pick(2500, 50000)
    for name, (strat, body) in PARTS.items():
        run_property(ctx, name, strat, body, n)


def replay(ctx, data):
    strat, body = PARTS[data["part"]]
    try:
        body(ctx, data["case"])
    except Violation as v:
        ctx.violation(v.signature, v.message, data)
