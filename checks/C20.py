"""C20 - order parameters respect the symmetries of what they measure."""

import math
import os

import numpy as np
from hypothesis import strategies as st

from vlib.cli import Violation
from vlib.hyp import run_property

RTOL = 1e-9
ATOL = 1e-9


def close(a, b, scale=1.0):
    return abs(a - b) <= ATOL + RTOL * max(abs(a), abs(b), scale)


def ang_close(a, b, period):
    d = (a - b) % period
    return min(d, period - d) <= 1e-7


def quat_to_rot(q):
    q = np.asarray(q, float)
    q = q / np.linalg.norm(q)
    w, x, y, z = q
    return np.array(
        [
            [1 - 2 * (y * y + z * z), 2 * (x * y - z * w), 2 * (x * z + y * w)],
            [2 * (x * y + z * w), 1 - 2 * (x * x + z * z), 2 * (y * z - x * w)],
            [2 * (x * z - y * w), 2 * (y * z + x * w), 1 - 2 * (x * x + y * y)],
        ]
    )


def mk_system(pos, vel, box):
    from infretis.classes.system import System

    s = System()
    s.pos = np.array(pos, float)
    s.vel = np.array(vel, float)
    s.box = None if box is None else np.array(box, float)
    return s


fl = lambda lo, hi: st.floats(lo, hi, allow_nan=False, allow_infinity=False, width=64)  # noqa: E731
vec3 = lambda lo, hi: st.lists(fl(lo, hi), min_size=3, max_size=3)  # noqa: E731


def common():
    return {
        "box": vec3(2.0, 40.0),
        "shifts": st.lists(st.lists(st.integers(-3, 3), min_size=3, max_size=3), min_size=8, max_size=8),
        "trans": vec3(-50.0, 50.0),
        "quat": st.lists(fl(-1, 1), min_size=4, max_size=4).filter(lambda q: sum(x * x for x in q) > 1e-2),
        "box9": st.booleans(),
    }


# ------------------------------------------------------------ pair parameters
def pair_cases():
    d = common()
    d.update(
        {
            "natoms": st.integers(2, 8),
            "idx": st.lists(st.integers(0, 7), min_size=2, max_size=2, unique=True),
            "frac": st.lists(vec3(-0.5, 0.5), min_size=8, max_size=8),  # positions in box fractions
            "cell": st.lists(st.lists(st.integers(-2, 2), min_size=3, max_size=3), min_size=8, max_size=8),
            "nearhalf": st.booleans(),
            "vel": st.lists(vec3(-5.0, 5.0), min_size=8, max_size=8),
            # an unbounded axis: the engines report an infinite box length for a non-periodic dimension (slab geometries)
            "inf_axis": st.sampled_from([None, None, None, 0, 1, 2]),
        }
    )
    return st.fixed_dictionaries(d)


def body_pair(rec, c):
    from infretis.classes.orderparameter import Distance, Distancevel, pbc_dist_coordinate

    n = c["natoms"]
    i, j = [k % n for k in c["idx"]]
    if i == j:
        j = (i + 1) % n
    L = np.array(c["box"])
    frac = np.array(c["frac"][:n])
    if c["nearhalf"]:
        # separation close to (but not at) half a box length along x
        frac[j] = frac[i] + np.array([0.4999, 0.1, -0.2])
    pos = frac * L + np.array(c["cell"][:n]) * L  # atoms may sit in different periodic images
    ia = c.get("inf_axis")
    if ia is not None:
        L = L.copy()
        L[ia] = np.inf  # positions along that axis stay where the finite length put them; no images along it
    vel = np.array(c["vel"][:n])
    box3 = L.copy()
    box9 = np.concatenate([L, np.zeros(6)])
    box = box9 if c["box9"] else box3
    raw = pos[j] - pos[i]
    Lfin = np.where(np.isinf(L), 1.0, L)
    mi = np.where(np.isinf(L), raw, raw - np.round(raw / Lfin) * Lfin)
    if np.linalg.norm(mi) < 1e-6 or np.linalg.norm(raw) < 1e-6:
        rec.case(key=None, classes=["pair:coincident-skip"])  # distance rate undefined for coincident atoms
        return
    margin_ok = bool(np.all(np.isinf(L) | (np.abs(np.abs(mi) - Lfin / 2) > 1e-6 * Lfin)))  # away from the half-box tie
    shift = np.array(c["shifts"][:n]) * np.where(np.isinf(L), 0.0, L)
    big_shift = bool(np.any(np.abs((pos + shift)[j] - (pos + shift)[i]) > L / 2))
    Lmax = float(Lfin.max())
    classes = ["pair", "pair:box9" if c["box9"] else "pair:box3"] + (["pair:unbounded-axis"] if ia is not None else [])
    if c["nearhalf"]:
        classes.append("pair:near-half-box")
    if big_shift:
        classes.append("pair:image-shift>L/2")
    rec.case(key=c, nontrivial=big_shift or c["nearhalf"], classes=classes,
             sample={"pos_i": pos[i].tolist(), "pos_j": pos[j].tolist(), "box": box.tolist(), "shift_j": c["shifts"][j]} if big_shift and len(rec.samples) < 3 else None)

    def calc(op, p, v, b):
        s = mk_system(p, v, b)
        p0, v0 = s.pos.copy(), s.vel.copy()
        b0 = None if s.box is None else s.box.copy()
        try:
            out = op.calculate(s)
        except Exception as exc:
            raise Violation(f"pair:{type(op).__name__}:raises:{type(exc).__name__}:box{0 if b is None else len(b)}",
                            f"{type(op).__name__}(periodic={getattr(op,'periodic',None)}) with a {0 if b is None else len(b)}-component box raised {exc!r}")
        same = np.array_equal(s.pos, p0) and np.array_equal(s.vel, v0) and (b0 is None or np.array_equal(s.box, b0))
        rec.check(same, f"pair:{type(op).__name__}:modifies-system")
        return float(out[0])

    # minimum-image bound
    w = pbc_dist_coordinate(raw.copy(), L)
    rec.check(bool(np.all(np.abs(w) <= L / 2 * (1 + 1e-12))), "pbc:exceeds-half-box", f"d={raw.tolist()} L={L.tolist()} -> {w.tolist()}")
    if margin_ok:
        rec.check(bool(np.allclose(w, mi, rtol=0, atol=1e-9 * Lmax)), "pbc:not-minimum-image", f"d={raw.tolist()} L={L.tolist()} -> {w.tolist()} want {mi.tolist()}")

    for periodic in (True, False):
        dist = Distance((i, j), periodic=periodic)
        dvel = Distancevel((i, j), periodic=periodic)
        scale = float(np.linalg.norm(raw)) + 1.0
        for name, op in (("Distance", dist), ("Distancevel", dvel)):
            base = calc(op, pos, vel, box)
            # reference value
            dvec = mi if periodic else raw
            r = float(np.linalg.norm(dvec))
            if name == "Distance":
                want = r
            else:
                want = float(np.dot(dvec, vel[j] - vel[i]) / r) if r > 0 else None
            if want is not None and (margin_ok or not periodic):
                rec.check(close(base, want, scale), f"pair:{name}:value", f"periodic={periodic} got {base} want {want}")
            # translation
            t = calc(op, pos + np.array(c["trans"]), vel, box)
            rec.check(close(t, base, scale + 50) or (periodic and not margin_ok), f"pair:{name}:translation", f"periodic={periodic} {base} vs {t}")
            # 3- vs 9-component box
            if periodic:
                b3 = calc(op, pos, vel, box3)
                b9 = calc(op, pos, vel, box9)
                rec.check(b3 == b9, f"pair:{name}:box3-vs-box9", f"{b3} vs {b9}")
                if margin_ok:
                    sh = calc(op, pos + shift, vel, box)
                    rec.check(close(sh, base, scale + 3 * Lmax), f"pair:{name}:image-shift", f"{base} vs {sh} shift={shift.tolist()}")
            else:
                # rotation (non-periodic)
                R = quat_to_rot(c["quat"])
                rr = calc(op, pos @ R.T, vel @ R.T, box)
                rec.check(close(rr, base, scale + 5), f"pair:{name}:rotation", f"{base} vs {rr}")
            # the same through the engine's calculate_order on a configuration file that carries no box (xyz frames as CP2K
            # writes them, g96 without a BOX block): the phase point's own box applies, image shifts in the file change nothing
            if periodic and margin_ok:
                from infretis.classes.system import System

                eng = _StubEngine.make({"plain": (pos, vel, None), "shifted": (pos + shift, vel, None)})
                eng.order_function = op
                vals = []
                try:
                    for fname in ("plain", "shifted"):
                        sy = System()
                        sy.config, sy.vel_rev, sy.box = (eng.files[fname], 0), False, box.copy()
                        try:
                            vals.append(float(eng.calculate_order(sy)[0]))
                        except Exception as exc:  # noqa: BLE001
                            raise Violation(f"pair:{name}:engine-file-without-box:raises:{type(exc).__name__}", repr(exc))
                finally:
                    eng.close()
                rec.check(close(vals[0], base, scale) and close(vals[1], base, scale + 3 * Lmax), f"pair:{name}:image-shift:through-calculate_order-on-a-file-without-box",
                          f"direct {base}; via engine {vals[0]}; via engine with shifted images {vals[1]}")
            # the same parameter object on the same system after the box was updated in place (pressure coupling: engines
            # write the new lengths into the array they hold): the value is the one a fresh object gives for the new box
            if periodic:
                sy = mk_system(pos, vel, box.copy())
                try:
                    op.calculate(sy)
                    sy.box[:3] = np.where(np.isinf(L), L, L * 0.61)
                    again = float(op.calculate(sy)[0])
                    fresh = float((Distance if name == "Distance" else Distancevel)((i, j), periodic=True).calculate(mk_system(pos, vel, sy.box.copy()))[0])
                except Exception as exc:  # noqa: BLE001
                    raise Violation(f"pair:{name}:box-updated-in-place:raises:{type(exc).__name__}", repr(exc))
                rec.check(close(again, fresh, scale), f"pair:{name}:stale-box-after-in-place-update", f"same object {again}, fresh object {fresh}, box now {sy.box.tolist()}")
            # velocity reversal
            rv = calc(op, pos, -vel, box)
            if name == "Distance":
                rec.check(rv == base, "pair:Distance:changes-under-velocity-reversal")
            else:
                rec.check(close(rv, -base, scale + 5), "pair:Distancevel:sign-under-velocity-reversal", f"{base} vs {rv}")


# -------------------------------------------------- single-particle parameters
def single_cases():
    return st.fixed_dictionaries(
        {
            "natoms": st.integers(1, 6),
            "idx": st.integers(0, 5),
            "dim": st.integers(0, 2),
            "pos": st.lists(vec3(-50, 50), min_size=6, max_size=6),
            "vel": st.lists(vec3(-5, 5), min_size=6, max_size=6),
            "box9": st.booleans(),
            "via": st.sampled_from(["direct", "engine-arrays", "engine-file"]),
            "op": st.sampled_from(["velocity", "position", "distancevel", "distance"]),
        }
    )


class _StubEngine:
    """Smallest concrete EngineBase: configuration 'files' are dict entries."""

    _cls = None

    @classmethod
    def make(cls, store):
        from infretis.classes.engines.enginebase import EngineBase

        if cls._cls is None:

            class Stub(EngineBase):
                def __init__(self):
                    super().__init__("stub", 1.0, 1)
                    self.store = {}

                def modify_velocities(self, ensemble, vel_settings):
                    raise NotImplementedError

                def set_mdrun(self, md_items):
                    pass

                def _extract_frame(self, traj_file, idx, out_file):
                    raise NotImplementedError

                def _propagate_from(self, *a, **k):
                    raise NotImplementedError

                def _read_configuration(self, filename):
                    p, v, b = self.store[os.path.basename(filename)]
                    return p.copy(), v.copy(), None if b is None else b.copy(), None

                def _reverse_velocities(self, filename, outfile):
                    raise NotImplementedError

            cls._cls = Stub
        e = cls._cls()
        e.store = store
        # the configuration "files" exist on disk (an engine may look at them before it reads them); the caller closes the engine
        from vlib import isolate

        e._dir = isolate.mkscratch("c20_")
        e.close = lambda: isolate.rmscratch(e._dir)
        e.files = {}
        for name in store:
            e.files[name] = os.path.join(e._dir, name)
            with open(e.files[name], "w") as fh:
                fh.write(f"{name}\n")
        return e


def body_single(rec, c):
    from infretis.classes.orderparameter import Distance, Distancevel, Position, Velocity
    from infretis.classes.system import System

    n = max(c["natoms"], 2 if c["op"] in ("distancevel", "distance") else 1)
    i = c["idx"] % n
    pos = np.array(c["pos"][:n])
    vel = np.array(c["vel"][:n])
    L = np.array([120.0, 130.0, 140.0])
    box = np.concatenate([L, np.zeros(6)]) if c["box9"] else L
    if c["op"] == "velocity":
        op = Velocity(i, "xyz"[c["dim"]])
        want = vel[i][c["dim"]]
        veltype = True
    elif c["op"] == "position":
        op = Position((i, c["dim"]), periodic=False)
        want = pos[i][c["dim"]]
        veltype = False
    else:
        j = (i + 1) % n
        d = pos[j] - pos[i]
        d = d - np.round(d / L) * L
        r = np.linalg.norm(d)
        if r < 1e-6:
            rec.case(key=None, classes=["single:coincident-skip"])
            return
        if c["op"] == "distancevel":
            op = Distancevel((i, j), periodic=True)
            want = float(np.dot(d, vel[j] - vel[i]) / r)
            veltype = True
        else:
            op = Distance((i, j), periodic=True)
            want = float(r)
            veltype = False
    rec.case(key=c, nontrivial=veltype, classes=["single", "single:" + c["op"], "single:via-" + c["via"]],
             sample=c if len(rec.samples) < 2 else None)
    rec.check(op.velocity_dependent == veltype, f"single:{c['op']}:velocity_dependent-flag")

    def ev(vel_rev):
        if c["via"] == "direct":
            s = mk_system(pos, -vel if vel_rev else vel, box)
            try:
                return float(op.calculate(s)[0])
            except Exception as exc:
                raise Violation(f"single:{c['op']}:direct:raises:{type(exc).__name__}", repr(exc))
        s = System()
        s.config = (eng.files["conf"], 0)
        s.vel_rev = vel_rev
        try:
            if c["via"] == "engine-arrays":
                return float(eng.calculate_order(s, xyz=pos.copy(), vel=vel.copy(), box=box.copy())[0])
            return float(eng.calculate_order(s)[0])
        except Exception as exc:
            raise Violation(f"single:{c['op']}:{c['via']}:raises:{type(exc).__name__}", repr(exc))

    eng = None
    if c["via"] != "direct":
        # one engine object and one unchanged configuration file for all evaluations of the case
        eng = _StubEngine.make({"conf": (pos, vel, box)})
        eng.order_function = op
    try:
        fwd, rev = ev(False), ev(True)
        rev2, fwd2 = ev(True), ev(False)
    finally:
        if eng is not None:
            eng.close()
    rec.check(rev2 == rev and fwd2 == fwd, f"single:{c['op']}:repeated-evaluation-differs:{c['via']}", f"forward {fwd} then {fwd2}; reversed {rev} then {rev2}")
    rec.check(close(fwd, want, 10), f"single:{c['op']}:value", f"via {c['via']}: got {fwd} want {want}")
    if veltype:
        rec.check(close(rev, -want, 10), f"single:{c['op']}:sign-under-velocity-reversal:{c['via']}", f"fwd {fwd} rev {rev}")
    else:
        rec.check(rev == fwd, f"single:{c['op']}:changes-under-velocity-reversal:{c['via']}", f"fwd {fwd} rev {rev}")


# ---------------------------------------------------------- dihedral / puckering
def ring_cases():
    d = common()
    d.update(
        {
            "kind": st.sampled_from(["dihedral", "puckering"]),
            "pts": st.lists(vec3(-1.0, 1.0), min_size=6, max_size=6),
            "radius": fl(0.8, 3.0),
            "center_frac": vec3(-0.5, 0.5),
            "perm": st.permutations(list(range(6))),
            "extra": st.integers(0, 2),
            "periodic": st.booleans(),
            # dihedrals only: an exactly planar chain (coordinates in a lattice plane: triple product exactly 0.0), trans or cis
            "planar": st.sampled_from([None, None, None, "trans", "cis"]),
        }
    )
    return st.fixed_dictionaries(d)


def pucker_cart(v):
    th, ph, q = math.radians(v[0]), math.radians(v[1]), v[2]
    return np.array([q * math.sin(th) * math.cos(ph), q * math.sin(th) * math.sin(ph), q * math.cos(th)])


def body_ring(rec, c):
    from infretis.classes.orderparameter import Dihedral, Puckering

    r = c["radius"]
    pts = np.array(c["pts"])
    if c["kind"] == "puckering":
        base = np.array([[r * math.cos(k * math.pi / 3), r * math.sin(k * math.pi / 3), 0.0] for k in range(6)])
        mol = base + 0.3 * r * pts
        nat = 6
    else:
        # a zig-zag chain with bond angles away from collinear
        mol = np.array([[0, 0, 0], [r, 0.3 * r, 0], [1.4 * r, 1.2 * r, 0.2 * r], [2.2 * r, 1.1 * r, r]]) + 0.25 * r * pts[:4]
        if c.get("planar"):
            # boundary values of the angle: 180 degrees (trans) and 0 (cis); the plane is a coordinate plane, so planarity is exact
            y3 = -r if c["planar"] == "trans" else r
            mol = np.array([[0.0, r, 0.0], [0.0, 0.0, 0.0], [1.5 * r, 0.0, 0.0], [1.5 * r, y3, 0.0]])
        nat = 4
    ntot = nat + c["extra"]
    Lmin = 2.2 * float(np.ptp(mol, axis=0).max()) + 1.0  # every intra-molecular vector well below L/2
    L = np.maximum(np.array(c["box"]), Lmin)
    order = [p for p in c["perm"] if p < ntot][:ntot]
    index = [order.index(k) if k in order else None for k in range(nat)]
    if None in index:
        index = list(range(nat))
        order = list(range(ntot))
    pos = np.zeros((ntot, 3))
    for k in range(nat):
        pos[index[k]] = mol[k] + np.array(c["center_frac"]) * L
    for k in range(ntot):
        if k not in index:
            pos[k] = np.array([1.0, 2.0, 3.0]) * (k + 1)
    vel = np.ones((ntot, 3))
    box3 = L.copy()
    box9 = np.concatenate([L, np.zeros(6)])
    box = box9 if c["box9"] else box3
    periodic = c["periodic"]
    Op = Dihedral if c["kind"] == "dihedral" else Puckering
    op = Op(tuple(index), periodic=periodic)
    shift = np.array(c["shifts"][:ntot]) * L
    nontrivial = periodic and bool(np.any(shift[index] != 0))
    rec.case(key=c, nontrivial=nontrivial or not periodic,
             classes=["ring", "ring:" + c["kind"], "ring:periodic" if periodic else "ring:free"],
             sample={"kind": c["kind"], "index": index, "pos": pos.tolist(), "box": box.tolist(), "periodic": periodic} if len(rec.samples) < 2 else None)

    def calc(p, v, b):
        s = mk_system(p, v, b)
        p0, v0, b0 = s.pos.copy(), s.vel.copy(), s.box.copy()
        try:
            out = op.calculate(s)
        except Exception as exc:
            raise Violation(f"ring:{c['kind']}:raises:{type(exc).__name__}", repr(exc))
        rec.check(np.array_equal(s.pos, p0) and np.array_equal(s.vel, v0) and np.array_equal(s.box, b0), f"ring:{c['kind']}:modifies-system")
        return [float(x) for x in out]

    def same(a, b, what, tol_scale=1.0):
        if c["kind"] == "dihedral":
            ok = ang_close(a[0], b[0], 2 * math.pi)
        else:
            ok = bool(np.allclose(pucker_cart(a), pucker_cart(b), rtol=0, atol=1e-7 * max(1.0, r) * tol_scale))
        rec.check(ok, f"ring:{c['kind']}:{what}", f"periodic={periodic}: {a} vs {b}")

    base = calc(pos, vel, box)
    if c["kind"] == "dihedral" and c.get("planar"):
        rec.cls("ring:dihedral:exactly-planar-" + c["planar"])
        want = math.pi if c["planar"] == "trans" else 0.0
        rec.check(ang_close(base[0], want, 2 * math.pi), "ring:dihedral:planar-value", f"{c['planar']}: got {base[0]} want {want} (mod 2 pi); periodic={periodic}")
    same(base, calc(pos + np.array(c["trans"]), vel, box), "translation")
    same(base, calc(pos, -vel, box), "changes-under-velocity-reversal")
    if periodic:
        same(base, calc(pos + shift, vel, box), "image-shift")
        a3, a9 = calc(pos, vel, box3), calc(pos, vel, box9)
        rec.check(a3 == a9, f"ring:{c['kind']}:box3-vs-box9", f"{a3} vs {a9}")
        # periodic and non-periodic agree for a whole molecule
        op_free = Op(tuple(index), periodic=False)
        s = mk_system(pos, vel, box)
        same(base, [float(x) for x in op_free.calculate(s)], "periodic-vs-free-on-whole-molecule")
    else:
        R = quat_to_rot(c["quat"])
        cen = pos[index].mean(axis=0)
        same(base, calc((pos - cen) @ R.T + cen, vel, box), "rotation", 10.0)


PARTS = {"pair": (pair_cases, body_pair), "single": (single_cases, body_single), "ring": (ring_cases, body_ring)}


def run(ctx):
    ctx.rule = (
        "Hypothesis: atoms placed at box fractions in arbitrary periodic images, orthogonal boxes 2..40 as 3- and 9-vectors, integer "
        "image shifts per atom, rigid translations, proper rotations from unit quaternions, velocity reversal (direct, and through "
        "EngineBase.calculate_order with vel_rev via explicit arrays and via the configuration file); rings = perturbed hexagons, "
        "dihedrals = perturbed zig-zag chains (non-degenerate by construction). Non-trivial: image shift changing the raw separation "
        "by more than L/2 or a near-half-box separation (pair); velocity-type parameter (single); periodic case with a shifted ring "
        "atom or any free rotation case (ring). Distinct = digest of the case."
    )
    ctx.assumptions = [
        "separations within 1e-6*L of exactly half a box length are excluded from the invariance clauses (rint tie), not from the half-box bound",
        "tolerance 1e-9 relative+absolute (lengths, rates), 1e-7 rad / 1e-7*scale for angles and puckering vectors",
    ]
    n = ctx.pick(3000, 50000)
    run_property(ctx, "pair", pair_cases, body_pair, n)
    run_property(ctx, "single", single_cases, body_single, n)
    run_property(ctx, "ring", ring_cases, body_ring, n)


def replay(ctx, data):
    strat, body = PARTS[data["part"]]
    try:
        body(ctx, data["case"])
    except Violation as v:
        ctx.violation(v.signature, v.message, data)
