"""C11 - zero swaps exchange the crossing frames and are reversible (also serves C09's swap clauses)."""

import math
from fractions import Fraction

import numpy as np
from hypothesis import strategies as st

from checks import movekit as mk
from checks.C09 import HALF, L0, TOP, membership, ref_traj, script_st
from vlib.cli import Violation
from vlib.hyp import run_property
from vlib.oracles import wfweight as wfref

ENS_MINUS = {"kind": "minus", "intf": ["-inf", L0, L0], "start_cond": "R"}
ENS_LM1 = {"kind": "minus_lm1", "intf": [-3.0, -1.5, L0], "start_cond": ["L", "R"]}
ENS_PLUS = {"kind": "plus", "intf": [L0, L0, TOP], "start_cond": "L"}


def f(x):
    return float("-inf") if x == "-inf" else float(x)


# --------------------------------------------------------------- generators
@st.composite
def swap_cases(draw):
    lm1 = draw(st.sampled_from([False, False, True]))
    n0 = draw(st.integers(1, 8))
    if lm1:
        interior0 = [draw(st.sampled_from([-2.5, -2.0, -1.5, -1.0, -0.5])) for _ in range(n0)]
        old0 = [draw(st.sampled_from([-3.5, 0.5]))] + interior0 + [draw(st.sampled_from([-3.5, 0.5, 0.5]))]
    else:
        interior0 = [draw(st.sampled_from([-3.0, -2.0, -1.5, -1.0, -0.5])) for _ in range(n0)]
        old0 = [0.5] + interior0 + [draw(st.sampled_from([0.5, 1.0]))]
    n1 = draw(st.integers(1, 8))
    interior1 = [draw(st.sampled_from([0.5, 1.0, 1.5, 2.0, 3.0, 3.5])) for _ in range(n1)]
    old1 = [draw(st.sampled_from([-0.5, -1.0]))] + interior1 + [draw(st.sampled_from([-0.5, 4.5]))]
    move1 = draw(st.sampled_from(["sh", "sh", "wf"]))
    return {
        "lm1": lm1, "old0": old0, "old1": old1, "move1": move1,
        "cap": draw(st.sampled_from([None, 3.0])) if move1 == "wf" else None,
        "maxlength": draw(st.sampled_from([4, 5, 6, 8, 12, 20, 60])),
        "script": draw(script_st(2, incs=[-1.0, -0.5, 0.0, 0.5, 1.0] if move1 == "wf" else None)),
        "u": draw(st.floats(0, 1, exclude_max=True)),
        "via_run_md": draw(st.booleans()),
    }


def setup_swap(c, wd, engines=None, kpots=(0.0, 0.0), betas=(1.0, 1.0), quantis=False, accept_all=False):
    e0 = ENS_LM1 if c.get("lm1") else ENS_MINUS
    tis_set = {"maxlength": c["maxlength"], "allowmaxlength": False, "zero_momentum": False, "n_jumps": 2,
               "quantis": quantis, "lambda_minus_one": (-3.0 if c.get("lm1") else False), "accept_all": accept_all}
    if c.get("cap") is not None:
        tis_set["interface_cap"] = c["cap"]
    if engines is None:
        eng0 = mk.make_engine(wd, [c["script"][0]], kpot=kpots[0], temperature=1.0 / betas[0])
        eng1 = mk.make_engine(wd, [c["script"][1]], kpot=kpots[1], temperature=1.0 / betas[1])
    else:
        eng0, eng1 = engines
    old0, f0 = mk.make_path(wd, "old0", c["old0"], c["maxlength"], kpot=kpots[0], vels=c.get("v0"), path_number=3)
    old1, f1 = mk.make_path(wd, "old1", c["old1"], c["maxlength"], kpot=kpots[1], vels=c.get("v1"), path_number=4)
    rng = mk.ScriptRng(randoms=[c.get("u", 0.5)])
    ens0 = {"interfaces": tuple(f(x) for x in e0["intf"]), "tis_set": dict(tis_set), "mc_move": "sh", "ens_name": "000", "start_cond": e0["start_cond"], "rgen": rng}
    ens1 = {"interfaces": tuple(f(x) for x in ENS_PLUS["intf"]), "tis_set": dict(tis_set), "mc_move": c.get("move1", "sh"), "ens_name": "001", "start_cond": "L", "rgen": mk.ScriptRng()}
    picked = {-1: {"ens": ens0, "traj": old0, "pn_old": 3, "eng_idx": {"engine0": 0}, "exe_dir": wd.exe, "rgen-eng": eng0.rgen},
              0: {"ens": ens1, "traj": old1, "pn_old": 4, "eng_idx": {"engine1": 0}, "exe_dir": wd.exe, "rgen-eng": eng1.rgen}}
    engines = {-1: [eng0], 0: [eng1]}
    return picked, engines, (old0, f0), (old1, f1), rng, e0


def call_swap(c, picked, engines, quantis=False):
    from infretis.core import tis

    if c.get("via_run_md"):
        tis.ENGINES = {"engine0": engines[-1], "engine1": engines[0]}
        md = {"picked": picked, "mc_moves": ["sh", c.get("move1", "sh"), "sh", "sh", "sh"], "interfaces": [L0, 1.0, 2.0, 3.0, TOP],
              "cap": c.get("cap"), "moves": [], "trial_len": [], "trial_op": [], "generated": []}
        out = tis.run_md(md)
        st_ = out["status"]
        return st_ == "ACC", [out["picked"][-1]["traj"], out["picked"][0]["traj"]], st_, True
    fn = tis.quantis_swap_zero if quantis else tis.retis_swap_zero
    acc, paths, st_ = fn(picked, engines)
    return acc, paths, st_, False


def frame_content(pp):
    se = mk.load_scripteng()
    x, v, e = se.read_frames(pp.config[0])[pp.config[1]]
    # a frame stored with vel_rev=True holds the reversed velocity: physical velocity = -v
    return (x, -v if pp.vel_rev else v, pp.order[0])


# --------------------------------------------------------------------- body
def body_swap(rec, c, prefix="swap"):
    wd = mk.Workdir()
    try:
        picked, engines, (old0, f0), (old1, f1), rng, e0 = setup_swap(c, wd)
        b0, b1 = mk.snap_path(old0), mk.snap_path(old1)
        fb0, fb1 = mk.file_bytes(f0), mk.file_bytes(f1)
        info = f"case={c}"
        try:
            acc, paths, status, via = call_swap(c, picked, engines)
        except AssertionError as exc:
            raise Violation(f"{prefix}:assertion-in-move", f"{exc!r} {info}")
        except Exception as exc:  # noqa: BLE001
            raise Violation(f"{prefix}:raises:{type(exc).__name__}", f"{exc!r} {info}")
        ncalls = len(engines[-1][0].calls) + len(engines[0][0].calls)
        left0 = f(e0["intf"][0])
        end_left = c["lm1"] and c["old0"][-1] <= left0
        binding = any(len(cl["frames"]) >= cl["maxlen"] - 1 for en in (engines[-1][0], engines[0][0]) for cl in en.calls)
        classes = [prefix, f"{prefix}:" + ("ACC" if acc else "rej:" + str(status)), f"{prefix}:lm1" if c["lm1"] else f"{prefix}:plain"]
        if binding:
            classes.append(f"{prefix}:maxlength-binds")
        if c["move1"] == "wf":
            classes.append(f"{prefix}:wf-in-[0+]")
        rec.case(key=c, nontrivial=bool(acc) or binding or end_left, classes=classes,
                 sample={"old[0-]": c["old0"], "old[0+]": c["old1"], "status": status,
                         "new[0-]": [pp.order[0] for pp in paths[0].phasepoints], "new[0+]": [pp.order[0] for pp in paths[1].phasepoints]} if acc and len(rec.samples) < 2 else None)
        rec.check((status == "ACC") == bool(acc), f"{prefix}:accept-flag-and-status-disagree", f"{acc} {status}")
        # (4) lambda_-1: a [0-] path that ended on the left is rejected without propagation
        if end_left:
            rec.check(not acc and status == "0-L", f"{prefix}:[0-]-ending-left-not-rejected-0-L", f"{acc} {status} {info}")
            rec.check(ncalls == 0, f"{prefix}:propagated-although-[0-]-ended-left", f"{ncalls} propagate calls")
            if not via:
                rec.check(paths[0] is old0 and paths[1] is old1, f"{prefix}:0-L-does-not-return-old-paths")
        if acc:
            n0 = [pp.order[0] for pp in paths[0].phasepoints]
            n1 = [pp.order[0] for pp in paths[1].phasepoints]
            # junction frames: same order and same configuration content
            j0 = [frame_content(pp) for pp in paths[0].phasepoints[-2:]]
            w0 = [frame_content(pp) for pp in old1.phasepoints[:2]]
            rec.check(j0 == w0, f"{prefix}:new-[0-]-does-not-end-with-first-two-[0+]-frames", f"{j0} vs {w0} {info}")
            j1 = [frame_content(pp) for pp in paths[1].phasepoints[:2]]
            w1 = [frame_content(pp) for pp in old0.phasepoints[-2:]]
            rec.check(j1 == w1, f"{prefix}:new-[0+]-does-not-start-with-last-two-[0-]-frames", f"{j1} vs {w1} {info}")
            membership(rec, f"{prefix}:[0-]", n0, e0, c["maxlength"], info)
            membership(rec, f"{prefix}:[0+]", n1, ENS_PLUS, c["maxlength"], info)
            # pieces of the scripted trajectories in time order
            back = engines[-1][0].calls[0]["frames"]
            forw = engines[0][0].calls[0]["frames"]
            rec.check(n0 == back[::-1] + [c["old1"][1]], f"{prefix}:new-[0-]-not-reversed-backward-trajectory-plus-junction", f"{n0} vs {back[::-1]} + {c['old1'][1]}")
            rec.check(n1 == [c["old0"][-2]] + forw, f"{prefix}:new-[0+]-not-junction-plus-forward-trajectory", f"{n1} vs {c['old0'][-2]} + {forw}")
            if c["move1"] == "wf":
                cap = c["cap"] if c["cap"] is not None else TOP
                rec.check(wfref.wf_weight(n1, L0, cap) > 0, f"{prefix}:accepted-[0+]-wf-path-has-zero-weight", f"{n1} {info}")
        else:
            # reference: with both trajectories leaving the interfaces well inside the limit the swap must be accepted
            if not end_left and c["move1"] != "wf":
                e0i = tuple(f(x) for x in e0["intf"])
                bk, okb = ref_traj(c["old1"][0], c["script"][0], e0i[0], e0i[2], c["maxlength"] - 1)
                fw, okf = ref_traj(c["old0"][-1], c["script"][1], L0, TOP, c["maxlength"] - 1)
                allowed = c["old0"][-1] >= L0
                roomy = okb and okf and len(bk) + 1 < c["maxlength"] and len(fw) + 1 < c["maxlength"] and len(bk) + 1 >= 3 and len(fw) + 1 >= 3
                starts_ok = c["lm1"] or bk[-1] > L0
                if allowed and roomy and starts_ok:
                    rec.check(False, f"{prefix}:valid-swap-rejected", f"status {status}; backward {bk}, forward {fw}; {info}")
        # wire fencing in [0+]: the swap is accepted with probability min(1, w(new [0+] path) / w(old [0+] path)), the weights being the
        # numbers of frames on qualifying sub-paths of [lambda_0, cap) (doubled for paths whose ends lie on different sides); [0-] shoots, weight 1
        if c["move1"] == "wf" and status in ("ACC", "HAS") and engines[0][0].calls:
            cap = c["cap"] if c["cap"] is not None else TOP

            def hw(o):
                w = wfref.wf_weight(o, L0, cap)
                return w * (2 if (o[0] < L0) != (o[-1] < L0) else 1)

            new1 = [c["old0"][-2]] + list(engines[0][0].calls[0]["frames"])
            w_old, w_new = hw(c["old1"]), hw(new1)
            if w_old > 0 and not (c["old1"][-1] > cap and c["old1"][-1] < TOP) and not (new1[-1] > cap and new1[-1] < TOP):
                pacc = Fraction(w_new) / Fraction(w_old)
                uf = Fraction(c.get("u", 0.5))
                if abs(uf - pacc) > Fraction(1, 2**40):
                    rec.cls(f"{prefix}:high-acceptance-rule-checked")
                    rec.check(bool(acc) == (uf < pacc), f"{prefix}:high-acceptance-rule", f"u={float(uf)} pacc={pacc} (w_new {w_new}, w_old {w_old}, region [{L0},{cap})) status {status}; new [0+] {new1}; {info}")
        # old paths are never modified (accepted or not)
        a0, a1 = mk.snap_path(old0), mk.snap_path(old1)
        d0 = {k: (b0[k], a0[k]) for k in b0 if b0[k] != a0[k]}
        d1 = {k: (b1[k], a1[k]) for k in b1 if b1[k] != a1[k]}
        tag = "accepted" if acc else "rejected"
        rec.check(not d0, f"{prefix}:{tag}-swap-changed-old-[0-]-path", f"{d0} status={status}")
        rec.check(not d1, f"{prefix}:{tag}-swap-changed-old-[0+]-path", f"{d1} status={status}")
        rec.check(mk.file_bytes(f0) == fb0 and mk.file_bytes(f1) == fb1, f"{prefix}:swap-changed-old-files")
        if via and not acc:
            rec.check(paths[0] is old0 and paths[1] is old1, "run_md:picked-traj-replaced-on-rejected-swap", f"status {status}")
    finally:
        wd.close()


# ----------------------------------------------------------- reversibility
@st.composite
def billiard_cases(draw):
    return {"wl": draw(st.integers(-14, -3)), "wr": draw(st.integers(3, 9)), "top": 12.0,
            "x0m": draw(st.integers(1, 3)), "v0m": -draw(st.integers(1, 3)),
            "x0p": -draw(st.integers(1, 3)), "v0p": draw(st.integers(1, 3)),
            "maxlength": 400}


def orbit_path(wd, eng, name, x, v, ens_set, maxlength):
    """Build a full path through phase point (x, v) with the engine itself (backward + forward)."""
    from infretis.classes.path import Path, paste_paths
    from infretis.classes.system import System

    se = mk.load_scripteng()
    fn = f"{wd.load}/{name}_seed.scr"
    se.write_frames(fn, [(float(x), float(v), 0.0)])
    s = System()
    s.config = (fn, 0)
    s.order = [float(x)]
    s.vel_rev = False
    back = Path(maxlen=maxlength)
    eng.propagate(back, ens_set, s.copy(), reverse=True)
    forw = Path(maxlen=maxlength)
    eng.propagate(forw, ens_set, s.copy(), reverse=False)
    p = paste_paths(back, forw, overlap=True, maxlen=maxlength)
    # store the frames in the load directory as PathStorage would (engine clean_up wipes exe_dir)
    import os
    import shutil

    moved = {}
    for pp in p.phasepoints:
        src = pp.config[0]
        if src not in moved:
            dst = os.path.join(wd.load, f"{name}_{len(moved)}.scr")
            shutil.copy(src, dst)
            moved[src] = dst
        pp.config = (moved[src], pp.config[1])
    p.generated = ("sh", 0.0, 0, 0)
    p.status = "ACC"
    return p


def body_billiard(rec, c):
    from infretis.core import tis

    wd = mk.Workdir()
    try:
        se = mk.load_scripteng()
        engs = []
        for _ in range(2):
            e = se.BilliardEngine(wl=c["wl"], wr=c["wr"])
            e.order_function = se.ScriptOP()
            e.exe_dir = wd.exe
            e.rgen = mk.ScriptRng()
            engs.append(e)
        tis_set = {"maxlength": c["maxlength"], "allowmaxlength": False, "zero_momentum": False, "n_jumps": 2, "quantis": False, "lambda_minus_one": False, "accept_all": False}
        ens0 = {"interfaces": (float("-inf"), L0, L0), "tis_set": dict(tis_set), "mc_move": "sh", "ens_name": "000", "start_cond": "R", "rgen": mk.ScriptRng()}
        ens1 = {"interfaces": (L0, L0, c["top"]), "tis_set": dict(tis_set), "mc_move": "sh", "ens_name": "001", "start_cond": "L", "rgen": mk.ScriptRng()}
        # old [0-]: orbit through (x<=0 side) ; old [0+]: orbit through the x>0 side
        p0 = orbit_path(wd, engs[0], "m", -c["x0m"], c["v0m"], ens0, c["maxlength"])
        p1 = orbit_path(wd, engs[1], "p", -c["x0p"], c["v0p"], ens1, c["maxlength"])
        o0, o1 = [pp.order[0] for pp in p0.phasepoints], [pp.order[0] for pp in p1.phasepoints]
        valid = (o0[0] > L0 and o0[-1] > L0 and all(x <= L0 for x in o0[1:-1]) and len(o0) >= 3 and
                 o1[0] < L0 and o1[-1] < L0 and all(x >= L0 for x in o1[1:-1]) and len(o1) >= 3 and
                 len(o0) < c["maxlength"] - 1 and len(o1) < c["maxlength"] - 1)
        if not valid:
            rec.case(key=None, classes=["billiard:orbit-not-a-valid-pair(skipped)"])
            return

        def swap(a, b):
            picked = {-1: {"ens": ens0, "traj": a}, 0: {"ens": ens1, "traj": b}}
            acc, paths, status = tis.retis_swap_zero(picked, {-1: [engs[0]], 0: [engs[1]]})
            # keep the new frames out of exe_dir's way
            import os
            import shutil

            for k, p in enumerate(paths):
                moved = {}
                for pp in p.phasepoints:
                    src = pp.config[0]
                    if src.startswith(wd.exe):
                        if src not in moved:
                            dst = os.path.join(wd.load, f"sw{swap.n}_{k}_{len(moved)}.scr")
                            shutil.copy(src, dst)
                            moved[src] = dst
                        pp.config = (moved[src], pp.config[1])
            swap.n += 1
            return acc, paths, status

        swap.n = 0
        acc1, (q0, q1), st1 = swap(p0, p1)
        rec.case(key=c, nontrivial=bool(acc1), classes=["billiard", "billiard:" + ("ACC" if acc1 else str(st1))],
                 sample={"[0-]": o0, "[0+]": o1, "after one swap": [[pp.order[0] for pp in q0.phasepoints], [pp.order[0] for pp in q1.phasepoints]]} if acc1 and len(rec.samples) < 2 else None)
        rec.check(acc1, "billiard:swap-of-valid-orbits-rejected", f"{st1} {o0} {o1}")
        if not acc1:
            return
        acc2, (r0, r1), st2 = swap(q0, q1)
        rec.check(acc2, "billiard:second-swap-rejected", f"{st2}")
        if not acc2:
            return
        g0, g1 = [pp.order[0] for pp in r0.phasepoints], [pp.order[0] for pp in r1.phasepoints]
        rec.check(g0 == o0 and g1 == o1, "swap:swapping-twice-does-not-restore-the-paths", f"[0-] {o0} -> {g0}; [0+] {o1} -> {g1}")
    finally:
        wd.close()


# ------------------------------------------------------------------ QuanTIS
@st.composite
def quantis_cases(draw):
    n0 = draw(st.integers(1, 5))
    # quarter-grid positions so that one-step crossings rarely land exactly on lambda_0
    old0 = [0.5] + [draw(st.sampled_from([-2.25, -1.25, -0.75, -0.25])) for _ in range(n0)] + [0.5]
    if draw(st.integers(0, 19)) == 0:
        old0[-2] = 0.25  # second last frame not on the left: QLL
    n1 = draw(st.integers(1, 5))
    first1 = draw(st.sampled_from([-0.25, -0.75, -1.25] * 6 + [0.25]))
    old1 = [first1] + [draw(st.sampled_from([0.5, 1.0, 2.0])) for _ in range(n1)] + [-0.5]
    return {
        "old0": old0, "old1": old1, "maxlength": draw(st.sampled_from([8, 20, 60])),
        "k0": draw(st.sampled_from([0.0, 0.5, 1.0, 2.0])), "k1": draw(st.sampled_from([0.0, 0.5, 1.0, 3.0])),
        "beta0": draw(st.sampled_from([0.5, 1.0, 2.0])), "beta1": draw(st.sampled_from([0.5, 1.0, 4.0])),
        "accept_all": draw(st.sampled_from([False, False, False, True])),
        "no_energy": draw(st.sampled_from([False] * 19 + [True])),
        # engine0: one step from r1, then backward; engine1: one step from r0, then forward
        "step0": draw(st.sampled_from([0.5, 1.0, 1.5, 1.5, 2.0, 2.0, -0.5])), "step1": draw(st.sampled_from([0.5, 1.0, 1.5, 2.5, 2.5, 2.5, -0.5])),
        "back": draw(script_st(1))[0], "forw": draw(script_st(1))[0],
        "u_mode": draw(st.sampled_from(["uniform", "at", "below", "above"])), "u": draw(st.floats(0, 1, exclude_max=True)),
    }


def body_quantis(rec, c):
    from infretis.core import tis

    wd = mk.Workdir()
    try:
        r0, r1 = c["old0"][-2], c["old1"][0]
        V = lambda k, x: k * x * x  # noqa: E731
        dV0 = V(c["k0"], r0) - V(c["k0"], r1)
        dV1 = V(c["k1"], r0) - V(c["k1"], r1)
        pacc = min(1.0, float(np.exp(dV0 * c["beta0"] - dV1 * c["beta1"])))
        u = c["u"]
        if c["u_mode"] != "uniform" and 0 < pacc < 1:
            u = {"at": pacc, "below": math.nextafter(pacc, 0.0), "above": math.nextafter(pacc, 1.0)}[c["u_mode"]]
        cc = dict(c)
        cc.update({"lm1": False, "move1": "sh", "cap": None, "u": u})
        eng0 = mk.make_engine(wd, [{"inc": [c["step0"]], "drift": 1.0}, c["back"]], kpot=c["k0"], temperature=1.0 / c["beta0"])
        eng1 = mk.make_engine(wd, [{"inc": [c["step1"]], "drift": 1.0}, c["forw"]], kpot=c["k1"], temperature=1.0 / c["beta1"])
        picked, engines, (old0, f0), (old1, f1), rng, e0 = setup_swap(cc, wd, engines=(eng0, eng1), kpots=(c["k0"], c["k1"]), betas=(c["beta0"], c["beta1"]),
                                                                 quantis=True, accept_all=c["accept_all"])
        if c["no_energy"]:
            old1.phasepoints[0].vpot = None
        b0, b1 = mk.snap_path(old0), mk.snap_path(old1)
        try:
            acc, paths, status = tis.quantis_swap_zero(picked, engines)
        except Exception as exc:  # noqa: BLE001
            raise Violation(f"quantis:raises:{type(exc).__name__}", f"{exc!r} case={c}")
        # a one-step landing exactly on lambda_0 is neither clearly left nor right: not judged
        if (r1 + c["step0"] == L0) or (r0 + c["step1"] == L0):
            rec.case(key=None, classes=["quantis:one-step-lands-on-interface(skipped)"])
            return
        # expected stage
        if c["no_energy"]:
            want = "QNE"
        elif not (r0 < L0 and r1 < L0):
            want = "QLL"
        elif not (r1 + c["step0"] >= L0):
            want = "QS0"
        elif not (r0 + c["step1"] >= L0):
            want = "QS1"
        elif (not c["accept_all"]) and u > pacc:
            want = "QEA"
        else:
            want = "later"
        frac = 0 < pacc < 1
        rec.case(key=c, nontrivial=(want in ("QEA", "later") and frac), classes=["quantis", "quantis:stage=" + want, "quantis:" + str(status), "quantis:u-" + c["u_mode"]],
                 sample={"r0": r0, "r1": r1, "k": [c["k0"], c["k1"]], "beta": [c["beta0"], c["beta1"]], "pacc": pacc, "u": u, "status": status} if frac and len(rec.samples) < 2 else None)
        info = f"pacc={pacc!r} u={u!r} status={status} case={c}"
        if want != "later":
            rec.check(status == want and not acc, f"quantis:expected-{want}", info)
        else:
            rec.check(status not in ("QNE", "QLL", "QS0", "QS1", "QEA"), "quantis:rejected-by-energy-or-crossing-rule-although-it-holds", info)
        rec.check((status == "ACC") == bool(acc), "quantis:accept-flag-and-status-disagree", info)
        if acc:
            n0 = [pp.order[0] for pp in paths[0].phasepoints]
            n1 = [pp.order[0] for pp in paths[1].phasepoints]
            membership(rec, "quantis:[0-]", n0, ENS_MINUS, c["maxlength"], info)
            membership(rec, "quantis:[0+]", n1, ENS_PLUS, c["maxlength"], info)
            rec.check(n0[-2] == r1 and n1[0] == r0, "quantis:junction-frames", f"{n0} {n1} r0={r0} r1={r1}")
            # the frames of a new path carry the potential energy of the engine of the ensemble they now belong to: the next
            # swap's acceptance rule reads V_0 and V_1 of the junction frames from there
            for tag, pth, k in (("[0-]", paths[0], c["k0"]), ("[0+]", paths[1], c["k1"])):
                bad = [(i, pp.order[0], pp.vpot) for i, pp in enumerate(pth.phasepoints) if pp.vpot is None or abs(pp.vpot - V(k, pp.order[0])) > 1e-9 * max(1.0, abs(V(k, pp.order[0])))]
                rec.check(not bad, f"quantis:{tag}:frame-carries-the-energy-of-the-other-engine", f"(frame, x, vpot) {bad[:3]} with k={k}; {info}")
        a0, a1 = mk.snap_path(old0), mk.snap_path(old1)
        rec.check(a0 == b0 and a1 == b1, "quantis:swap-changed-old-paths", f"status {status}")
    finally:
        wd.close()


PARTS = {"swap": (swap_cases, body_swap), "billiard": (billiard_cases, body_billiard), "quantis": (quantis_cases, body_quantis)}


def run(ctx):
    ctx.rule = (
        "Direct calls of retis_swap_zero / quantis_swap_zero (and run_md on top) on generated valid [0-]/[0+] pairs with the scripted engine "
        "(two instances, one per ensemble) and a scripted job stream: lambda_-1 variant with [0-] paths ending left or right, wf in [0+] "
        "(high-acceptance swap), maxlength from binding to loose. Accepted: junction frames identical in order and configuration content, "
        "membership predicate for both ensembles, new paths = reversed backward trajectory + junction / junction + forward trajectory; "
        "old paths and files never modified; a swap whose trajectories leave the interfaces well inside the limit must be accepted. "
        "Billiard (exactly reversible integer dynamics): swap twice restores both order sequences with ==. QuanTIS: two engines with "
        "different potentials k x^2 and beta, statuses QNE/QLL/QS0/QS1/QEA under their conditions, u at pacc and its float neighbours. "
        "Non-trivial: accepted or maxlength binds or [0-] ended left (swap); accepted (billiard); energy rule reached with 0<pacc<1 (quantis)."
    )
    run_property(ctx, "swap", swap_cases, body_swap, ctx.pick(3000, 40000))
    run_property(ctx, "billiard", billiard_cases, body_billiard, ctx.pick(400, 4000))
    run_property(ctx, "quantis", quantis_cases, body_quantis, ctx.pick(2500, 30000))


def replay(ctx, data):
    strat, body = PARTS[data["part"]]
    try:
        body(ctx, data["case"])
    except Violation as v:
        ctx.violation(v.signature, v.message, data)
