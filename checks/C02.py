"""C02 - swap probabilities equal exact permanent ratios (inf_retis vs an independent oracle)."""

import itertools
import math
from fractions import Fraction

import numpy as np
from hypothesis import strategies as st

from vlib.cli import Rec, Violation, digest
from vlib.hyp import derive_seed, pmap, run_property
from vlib.oracles import perm as oracle

TOL_EXACT = 1e-9


def new_state(offset=1):
    """A REPEX_state shell: only what inf_retis and its sub-routines touch."""
    from infretis.classes.repex import REPEX_state

    st_ = REPEX_state.__new__(REPEX_state)
    st_._offset = offset
    st_._random_count = 0
    st_.rgen = np.random.default_rng(12345)
    return st_


def build_W(k, rows, slots):
    """rows: list of k plus-rows (each a list of k weights, zero after the prefix);
    slots: permutation, plus row rows[slots[s]] sits in plus slot s. Returns (k+2)x(k+2)."""
    n = k + 2
    W = np.zeros((n, n))
    W[0, 0] = 1.0
    for s in range(k):
        W[s + 1, 1 : k + 1] = rows[slots[s]]
    return W


def idle_block(W, locks):
    idx = [i for i in range(len(W)) if not locks[i]]
    return idx, [[W[i, j] for j in idx] for i in idx]


def as_exact(block, integer):
    if integer:
        return [[int(x) for x in r] for r in block]
    return [[Fraction(float(x)) for x in r] for r in block]


def compare(rec, state, W, locks, integer, tol, tag, info):
    """Run inf_retis on (W, locks) and compare with the oracle. Returns 'unreachable' or 'ok'."""
    idx, block = idle_block(W, locks)
    n = len(idx)
    if n == 0:
        return "all-busy"
    if n <= 9 or (integer and n <= 17):
        per, P = oracle.matching_probs(as_exact(block, integer))
    else:
        per, P = oracle.matching_probs([[float(x) for x in r] for r in block])
    if per == 0:
        return "unreachable"
    try:
        out = state.inf_retis(W.copy(), np.array(locks, dtype=float))
    except AssertionError as exc:
        raise Violation(f"{tag}:assert-in-inf_retis", f"{info} -> AssertionError {exc}")
    except Exception as exc:  # in-domain input must not raise
        raise Violation(f"{tag}:exception:{type(exc).__name__}", f"{info} -> {exc!r}")
    rec.check(out.shape == W.shape, f"{tag}:shape", info)
    # busy rows and columns are zero
    for i in range(len(W)):
        if locks[i]:
            rec.check(not out[i, :].any() and not out[:, i].any(), f"{tag}:busy-nonzero", f"{info} busy {i}")
    worst = 0.0
    for a, i in enumerate(idx):
        for b, j in enumerate(idx):
            want = float(P[a][b])
            got = float(out[i, j])
            err = abs(got - want)
            worst = max(worst, err)
            if W[i, j] == 0:
                rec.check(got == 0.0, f"{tag}:nonzero-where-weight-zero", f"{info} P[{i},{j}]={got}")
            if err > tol:
                raise Violation(
                    f"{tag}:permanent-ratio",
                    f"{info}: P[{i},{j}]={got!r} but W_ij*perm(W^ij)/perm(W)={want!r} (|d|={err:.3g}); W={W.tolist()} locks={list(locks)}",
                )
    sub = out[np.ix_(idx, idx)]
    # a negative entry (however tiny) makes Generator.choice(p=...) in pick() raise
    rec.check(float(np.min(out)) >= 0.0, f"{tag}:negative-probability", f"{info}: min entry {float(np.min(out))!r}; W={W.tolist()} locks={list(locks)}")
    rec.check(
        np.allclose(sub.sum(axis=0), 1, atol=1e-8) and np.allclose(sub.sum(axis=1), 1, atol=1e-8),
        f"{tag}:not-doubly-stochastic", info)
    return worst


# --------------------------------------------------------------- exhaustive
def _exh_worker(job):
    pid, k, multisets, nperm_cap, seed = job
    rec = Rec(pid)
    state = new_state()
    rng = np.random.default_rng(seed)
    n = k + 2
    states = set()
    for ms in multisets:
        rows = [[1.0] * c + [0.0] * (k - c) for c in ms]
        perms = sorted(set(itertools.permutations(range(k)), ), key=None)
        # distinct arrangements of the multiset over slots
        seen = {}
        for p in perms:
            key = tuple(ms[p[s]] for s in range(k))
            seen.setdefault(key, p)
        arr = list(seen.values())
        if nperm_cap and len(arr) > nperm_cap:
            pick = rng.choice(len(arr), size=nperm_cap, replace=False)
            arr = [arr[i] for i in sorted(pick)]
        for slots in arr:
            W = build_W(k, rows, slots)
            for lockbits in range(2 ** (k + 1)):
                locks = [(lockbits >> i) & 1 for i in range(k + 1)] + [1]
                info = f"k={k} prefixes-by-slot={[ms[slots[s]] for s in range(k)]} busy={[i for i in range(k+1) if locks[i]]}"
                try:
                    res = compare(rec, state, W, locks, True, TOL_EXACT, "exh", info)
                except Violation as v:
                    rec.violation(v.signature, v.message, {"part": "matrix", "W": W.tolist(), "locks": locks, "integer": True, "tol": TOL_EXACT})
                    res = "violation"
                if res == "unreachable":
                    rec.cls("exh:unreachable(perm=0)")
                    continue
                if res == "all-busy":
                    rec.cls("exh:all-busy")
                    continue
                idx, block = idle_block(W, locks)
                plus = [tuple(r) for r, i in zip(block, idx) if i != 0]
                nt = len(set(plus)) >= 2 or sum(locks[:-1]) >= 1
                key = digest([W.tolist(), locks])
                rec.case(key=key, nontrivial=nt, classes=[f"exh:k={k}"],
                         sample={"k": k, "prefix_by_slot": [ms[slots[s]] for s in range(k)], "busy": [i for i in range(k + 1) if locks[i]]}
                         if (len(rec.samples) < 2 and nt) else None)
    return rec


def run_exhaustive(ctx):
    ks = ctx.pick([1, 2, 3, 4, 5], [1, 2, 3, 4, 5, 6])
    jobs = []
    complete = True
    for k in ks:
        multisets = list(itertools.combinations_with_replacement(range(1, k + 1), k))
        cap = 0 if k <= 4 else 3
        if ctx.quick and k == 5:
            cap = 1
        if cap:
            complete = False
        chunk = max(1, len(multisets) // 32)
        for i in range(0, len(multisets), chunk):
            jobs.append((ctx.pid, k, multisets[i : i + chunk], cap, derive_seed(ctx.seed, "exh", k, i)))
    for r in pmap(ctx, _exh_worker, jobs):
        ctx.merge(r)
    ctx.note("exhaustive_scope", f"0/1 staircases, k plus-ensembles in {ks}: all prefix multisets x all busy subsets; all distinct row arrangements for k<=4, sampled arrangements for k>=5")
    return complete


# ------------------------------------------------------------------ random
def rand_cases():
    @st.composite
    def case(draw):
        k = draw(st.sampled_from([2, 3, 3, 4, 4, 5, 5, 6, 7, 8, 8, 9, 9, 10, 11, 12, 12]))  # 12: the largest block that is computed exactly
        moves = draw(st.lists(st.sampled_from(["sh", "wf", "wf"]), min_size=k, max_size=k))
        kind = draw(st.sampled_from(["int", "int-equalcol", "float", "int2", "int-large-near-equal"] if k < 12 else ["int", "int2"]))
        if k == 12:
            moves = ["wf"] * k  # one coupled block of unequal weights
        # prefix length of the row sitting in plus slot s: >= s+1 (non-zero diagonal, the state after
        # sort_trajstate), optionally disturbed by the transpositions pick() applies before a later pick
        pref = [draw(st.integers(s + 1, k)) for s in range(k)] if k < 12 else [k] * k
        if kind == "float":
            wst = st.floats(1e-3, 1e6, allow_nan=False, allow_infinity=False) | st.sampled_from([1.0, 2.0, 0.5])
        elif kind == "int-large-near-equal":
            # frame counts of very long paths that differ by a few frames: unequal weights, however close
            base = draw(st.sampled_from([10**5, 250000, 10**6]))
            wst = st.integers(base, base + 3)
        else:
            wst = st.integers(1, 10**4) | st.integers(1, 12)
        colw = draw(st.lists(wst, min_size=k, max_size=k))
        rows = []
        for r in range(k):
            row = []
            for c in range(k):
                if c >= pref[r]:
                    row.append(0.0)
                elif moves[c] == "sh":
                    row.append(1.0)
                elif kind == "int-equalcol":
                    row.append(float(colw[c]))
                else:
                    w = draw(wst)
                    row.append(float(2 * w if kind == "int2" else w))
            rows.append(row)
        slots = list(range(k))
        for _ in range(draw(st.sampled_from([0, 0, 1, 2, 3]))):
            a, b = draw(st.integers(0, k - 1)), draw(st.integers(0, k - 1))
            slots[a], slots[b] = slots[b], slots[a]
        locks = draw(st.lists(st.integers(0, 4).map(lambda x: 1 if x == 0 else 0), min_size=k + 1, max_size=k + 1)) + [1]
        return {
            "k": k, "kind": kind, "rows": rows, "slots": list(slots), "locks": locks,
            "scale_row": draw(st.integers(0, k - 1)),
            "scale": draw(st.sampled_from([2.0, 0.5, 3.0, 10.0, 1e-3, 1e3, 7.25, 2.0**-30, 2.0**30])),
        }

    return case()


def body_rand(rec, c):
    state = new_state()
    k = c["k"]
    W = build_W(k, c["rows"], c["slots"])
    locks = c["locks"]
    integer = c["kind"] != "float"
    idx, block = idle_block(W, locks)
    info = f"k={k} kind={c['kind']} busy={[i for i in range(k+1) if locks[i]]}"
    tol = 1e-9  # absolute, on a probability
    res = compare(rec, state, W, locks, integer, tol, "rand", info)
    if res in ("unreachable", "all-busy"):
        rec.case(key=None, nontrivial=False, classes=["rand:" + res])
        return
    plus = [tuple(r) for r, i in zip(block, idx) if i != 0]
    hetero = any(len({row[j] for row in plus if row[j] != 0}) > 1 for j in range(len(idx)))
    nt = len(set(plus)) >= 2 or sum(locks[:-1]) >= 1
    classes = ["rand", f"rand:idle={len(idx)}", "rand:" + c["kind"]]
    if hetero:
        classes.append("rand:unequal-weights-in-column(permanent path)")
    if state._random_count:
        classes.append("rand:monte-carlo-block")
    rec.case(key=c, nontrivial=nt, classes=classes, sample=c if (k <= 3 and hetero) else None)
    rec.note("max_abs_err", 0)  # placeholder so the key exists
    # metamorphic: rescaling one path's weights leaves P unchanged
    s = c["scale_row"] + 1
    if not locks[s]:
        W2 = W.copy()
        W2[s, :] *= c["scale"]
        out1 = state.inf_retis(W.copy(), np.array(locks, dtype=float))
        out2 = state.inf_retis(W2, np.array(locks, dtype=float))
        rec.check(np.allclose(np.asarray(out1, float), np.asarray(out2, float), atol=10 * tol, rtol=0),
                  "rand:row-rescaling-changes-P", f"{info} row {s} x {c['scale']}: max diff {np.abs(out1-out2).max()}")
        rec.cls("rand:rescaled")
    # code paths agree: permanent_prob / quick_prob called directly on the sorted idle plus block
    pidx = [i for i in idx if i != 0]
    if 2 <= len(pidx) <= 9:
        sub = W[np.ix_(pidx, pidx)]
        order = np.argsort([int(np.max(np.nonzero(r)[0])) if r.any() else -1 for r in sub], kind="stable")
        sub = sub[order]
        per, P = oracle.matching_probs(as_exact(sub.tolist(), integer))
        if per != 0:
            pp = np.asarray(state.permanent_prob(sub.copy()), float)
            Pf = np.array([[float(x) for x in r] for r in P])
            rec.check(np.abs(pp - Pf).max() <= tol, "rand:permanent_prob-vs-oracle", f"{info} max diff {np.abs(pp-Pf).max()} sub={sub.tolist()}")
            if not hetero:
                qp = np.asarray(state.quick_prob(sub.copy()), float)
                rec.check(np.abs(qp - Pf).max() <= tol, "rand:quick_prob-vs-oracle", f"{info} max diff {np.abs(qp-Pf).max()} sub={sub.tolist()}")
                rec.cls("rand:quick-vs-permanent-compared")


# ---------------------------------------------------- many ensembles: a small high-acceptance block beside a big uniform block
def large_cases():
    """13-16 idle paths whose weights are constant over the ensembles they reach (ordinary shooting ensembles, each row with its
    own constant), optionally preceded by 1-3 wire-fencing ensembles with unequal weights confined to their own block. Every code
    path taken here is an exact one (global equal-weight shortcut, or block split + quick_prob / permanent_prob)."""
    @st.composite
    def case(draw):
        b = draw(st.sampled_from([0, 1, 2, 2, 3]))
        m = draw(st.integers(13, 16))
        k = b + m
        kind = draw(st.sampled_from(["int", "float"]))
        wst = st.integers(1, 50) if kind == "int" else st.floats(0.01, 1e4, allow_nan=False) | st.sampled_from([1.0, 2.0])
        rows = []
        for r in range(b):  # reach r+1..b, unequal weights
            reach = draw(st.integers(r + 1, b))
            rows.append([float(draw(wst)) for _ in range(reach)] + [0.0] * (k - reach))
        for r in range(m):  # reach beyond the small block, one constant per row
            reach = draw(st.integers(b + r + 1, k))
            const = float(draw(st.sampled_from([1, 1, 1, 2, 5]))) if draw(st.booleans()) else 1.0
            rows.append([const] * reach + [0.0] * (k - reach))
        locks = [draw(st.sampled_from([0, 0, 0, 1]))] + [0] * k + [1]
        if draw(st.booleans()):
            locks[draw(st.integers(1, k))] = 1
        slots = list(range(k))
        for _ in range(draw(st.sampled_from([0, 1, 2]))):
            a, c = draw(st.integers(0, k - 1)), draw(st.integers(0, k - 1))
            slots[a], slots[c] = slots[c], slots[a]
        return {"k": k, "b": b, "kind": kind, "rows": rows, "slots": slots, "locks": locks}

    return case()


def body_large(rec, c):
    state = new_state()
    k = c["k"]
    W = build_W(k, c["rows"], c["slots"])
    locks = c["locks"]
    info = f"k={k} small-block={c['b']} kind={c['kind']} busy={[i for i in range(k + 1) if locks[i]]}"
    # Which blocks does the idle plus matrix decompose into? (rows sorted by reach; a block closes where the number of rows
    # reaching no further than column c equals c). A block of more than 12 paths that is not row-constant has no exact code
    # path (Monte-Carlo by design): that happens here when a busy slot takes a path of the small block away and its
    # remaining paths merge with the big block. Those cases are counted and left to the Monte-Carlo part.
    idx, block = idle_block(W, locks)
    plus = [[x for x, j in zip(r, idx) if j != 0] for r, i in zip(block, idx) if i != 0]
    plus.sort(key=lambda r: max([j for j, x in enumerate(r) if x != 0], default=-1))
    start, mc_legit = 0, False
    for i, r in enumerate(plus):
        reach = max([j for j, x in enumerate(r) if x != 0], default=-1)
        if max(max([j for j, x in enumerate(q) if x != 0], default=-1) for q in plus[start : i + 1]) == i:
            rows = [q[start : i + 1] for q in plus[start : i + 1]]
            uniform = all(len({x for x in q if x != 0}) <= 1 for q in rows)
            if len(rows) > 12 and not uniform:
                mc_legit = True
            start = i + 1
    if mc_legit:
        rec.case(key=None, nontrivial=False, classes=["large:non-uniform-block>12(Monte-Carlo-by-design)"])
        return
    res = compare(rec, state, W, locks, c["kind"] == "int", 1e-9, "large", info)
    if res in ("unreachable", "all-busy"):
        rec.case(key=None, nontrivial=False, classes=["large:" + res])
        return
    rec.check(state._random_count == 0, "large:monte-carlo-used-where-an-exact-path-applies", f"{info} rows={c['rows']}")
    rec.case(key=c, nontrivial=True, classes=["large", f"large:small-block={c['b']}", f"large:idle={sum(1 for x in locks if not x)}"],
             sample={"k": k, "b": c["b"], "locks": locks, "first_rows": c["rows"][:4]} if len(rec.samples) < 1 else None)


# ---------------------------------------------------- big blocks (Monte Carlo)
def _mc_worker(job):
    pid, seed = job
    rec = Rec(pid)
    rng = np.random.default_rng(seed)
    k = int(rng.integers(13, 15))
    state = new_state()
    state.rgen = np.random.default_rng(seed + 1)
    rows = []
    for r in range(k):
        rows.append([float(rng.integers(1, 6)) for _ in range(k)])  # full rows, unequal weights -> one block of size k
    W = build_W(k, rows, list(range(k)))
    locks = [1] + [0] * k + [1]
    import contextlib, io
    try:
        with contextlib.redirect_stdout(io.StringIO()):
            out = np.asarray(state.inf_retis(W.copy(), np.array(locks, dtype=float)), float)
    except Exception as exc:  # noqa: BLE001  (an in-domain matrix must give a probability matrix)
        rec.case(key=[k, seed], nontrivial=True, classes=["mc-block"])
        rec.violation(f"mc:exception:{type(exc).__name__}", f"k={k}: inf_retis raised {exc!r} on a full {k}x{k} block of unequal weights", {"part": "mc", "seed": seed})
        return rec
    idx, block = idle_block(W, locks)
    per, P = oracle.matching_probs([[float(x) for x in r] for r in block])
    Pf = np.array(P)
    sub = out[np.ix_(idx, idx)]
    d = float(np.abs(sub - Pf).max())
    rec.case(key=[k, seed], nontrivial=True, classes=["mc-block"], sample={"k": k, "max_abs_dev_from_exact": d})
    rec.note("mc_max_dev", [d])
    if not (np.allclose(sub.sum(0), 1, atol=1e-6) and np.allclose(sub.sum(1), 1, atol=1e-6)):
        rec.violation("mc:not-doubly-stochastic", f"k={k}", {"part": "mc", "seed": seed})
    if state._random_count < 1:
        rec.cls("mc:not-monte-carlo")
    elif d > 0.08:
        rec.violation("mc:far-from-exact", f"k={k} max |P-P*|={d}", {"part": "mc", "seed": seed})
    return rec


def run(ctx):
    ctx.rule = (
        "(a) enumeration of 0/1 staircase matrices: every multiset of prefix lengths for k plus-ensembles, every subset of busy "
        "ensembles (ghost always busy), every distinct arrangement of the plus rows over plus slots (k<=4; sampled for k>=5), kept iff "
        "the idle block has perm>0 (others are unreachable and counted); (b) Hypothesis matrices k<=11 with sh/wf column patterns, "
        "integer (1..1e4, x2) and real (1e-3..1e6) high-acceptance weights, busy subsets, row arrangements, plus row-rescaling and direct "
        "permanent_prob/quick_prob comparisons; (b') 13-16 idle paths with row-constant weights beside a 0-3 path high-acceptance block "
        "(exact code paths: must agree to 1e-9 and must not use the Monte-Carlo routine); (c) blocks >12 (Monte-Carlo path; 8 / 32 matrices): no exception, doubly stochastic to 1e-6, within a loose band of the exact values. "
        "Oracle: independent subset-DP permanent (exact ints/Fractions up to 9x9, float DP without cancellation beyond). "
        "Non-trivial: >=2 idle plus rows with different weight rows, or >=1 busy real ensemble. Distinct = digest of (W, locks)."
    )
    ctx.assumptions = [
        "the [0-] path sits in slot 0 and only there (pick/add_traj maintain this); ghost row/column zero and busy",
        "busy slots are symmetric (row i and column i dropped together)",
        "tolerance 1e-9 absolute on probabilities (integer weights 1..2e4 and real weights 1e-3..1e6); entries must be >= 0 exactly",
    ]
    if not getattr(ctx, "part", None) or ctx.part == "exhaustive":
        complete = run_exhaustive(ctx)
        ctx.exhaustive = bool(complete) and False  # the run as a whole also contains sampled parts
        ctx.note("exhaustive_part_complete", bool(complete))
    run_property(ctx, "random", rand_cases, body_rand, ctx.pick(2000, 20000))
    run_property(ctx, "large", large_cases, body_large, ctx.pick(64, 640), shards=ctx.procs, shrink=not ctx.quick)
    # the probabilities the sampler actually uses: P is cached between a pick and the next change of the state; over generated
    # histories (the generator of C03-C05) the cached matrix must equal a fresh evaluation whenever it is looked at
    from checks import histcheck

    h_strategy, h_body, _ = histcheck.make("C02", {"C02cache": 1}, ("C02:",), lambda st, summ: bool(st.get("events_with>=2_in_flight") and st.get("accepted")))
    run_property(ctx, "history", h_strategy, h_body, ctx.pick(300, 3000), shards=ctx.procs, shrink=not ctx.quick)
    if not getattr(ctx, "part", None) or ctx.part == "mc":
        for r in pmap(ctx, _mc_worker, [(ctx.pid, derive_seed(ctx.seed, "mc", i)) for i in range(ctx.pick(8, 32))]):
            ctx.merge(r)


def replay(ctx, data):
    try:
        if data["part"] == "matrix":
            compare(ctx, new_state(), np.array(data["W"]), data["locks"], data["integer"], data["tol"], "exh", "replay")
        elif data["part"] == "random":
            body_rand(ctx, data["case"])
        elif data["part"] == "large":
            body_large(ctx, data["case"])
        elif data["part"] == "mc":
            ctx.merge(_mc_worker((ctx.pid, data["seed"])))
        elif data["part"] == "history":
            from checks import histcheck

            histcheck.make("C02", {"C02cache": 1}, ("C02:",), lambda st, summ: True)[1](ctx, data["case"])
    except Violation as v:
        ctx.violation(v.signature, v.message, data)
