"""C19 - configuration, trajectory and input-template codecs are lossless."""

import os
import re

import numpy as np
from hypothesis import strategies as st

from checks.C16 import read_g96, read_lammpstrj, read_xyz
from vlib import enginekit as ek
from vlib import isolate
from vlib.cli import Violation
from vlib.hyp import run_property
from vlib.oracles import trr as trrref

VAL = st.one_of(
    st.floats(-50, 50).map(lambda x: round(x, 9)),
    st.sampled_from([0.0, -0.0, 1e-9, -1e-9, 0.9999999995, -0.0000000004, 12345.678901234, 99999.999999, -1234.5, -9999.999999, 1000.0, -1000.000000001]),
)
VEC = st.lists(VAL, min_size=3, max_size=3)


def indep(reader, path, sig):
    """Independent reader on a file infretis wrote: a parse failure means the file is malformed."""
    try:
        return reader(path)
    except Exception as exc:  # noqa: BLE001
        raise Violation(sig, f"independent reader cannot parse the written file: {exc!r}; file head: {open(path).read()[:300]!r}")


def close(a, b, tol):
    return np.allclose(np.asarray(a, float), np.asarray(b, float), rtol=0, atol=tol)


# ------------------------------------------------------------------------ g96
@st.composite
def g96_cases(draw):
    n = draw(st.integers(1, 12))
    box = draw(st.one_of(st.none(), st.lists(st.floats(1, 50).map(lambda x: round(x, 6)), min_size=3, max_size=3),
                         st.lists(st.floats(1, 50).map(lambda x: round(x, 6)), min_size=3, max_size=3).map(lambda b: b + [0.0] * 6)))
    # velocities must fit the 15-character field with either sign (they are reversed): |v| < 10000
    vvec = st.lists(VAL.filter(lambda x: abs(x) < 10000), min_size=3, max_size=3)
    return {"n": n, "pos": [draw(VEC) for _ in range(n)], "vel": [draw(vvec) for _ in range(n)] if draw(st.booleans()) else None,
            "box": box, "names": [draw(st.sampled_from(["H", "C", "OW", "HW1", "NA"])) for _ in range(n)]}


def body_g96(rec, c):
    from infretis.classes.engines.gromacs import GromacsEngine, read_gromos96_file, write_gromos96_file

    d = isolate.mkscratch("g96_")
    try:
        src = os.path.join(d, "a.g96")
        with open(src, "w") as fh:
            fh.write(ek.g96_text(c["pos"], c["vel"], c["box"], names=c["names"]))
        wide = any(abs(x) >= 1000 for row in c["pos"] + (c["vel"] or []) for x in row)
        nine = c["box"] is not None and len(c["box"]) == 9
        rec.case(key=c, nontrivial=bool(wide or nine or c["n"] >= 2), classes=["g96", "g96:box9" if nine else "g96:box3-or-none", "g96:value-at-width-limit" if wide else "g96:narrow"],
                 sample=c if len(rec.samples) < 1 and wide else None)
        try:
            raw, xyz, vel, box = read_gromos96_file(src)
        except Exception as exc:  # noqa: BLE001
            raise Violation(f"g96:read-raises:{type(exc).__name__}", f"{exc!r} case={c}")
        rec.check(close(xyz, c["pos"], 5e-10), "g96:read:positions", f"{xyz.tolist()} vs {c['pos']}")
        if c["vel"] is not None:
            rec.check(close(vel, c["vel"], 5e-10), "g96:read:velocities", f"{vel.tolist()} vs {c['vel']}")
        else:
            rec.check(not np.any(vel), "g96:read:missing-velocities-not-zero")
        if c["box"] is None:
            rec.check(box is None, "g96:read:box-invented")
        else:
            rec.check(box is not None and len(box) == len(c["box"]) and close(box, c["box"], 5e-10), "g96:read:box", f"{box} vs {c['box']}")
        # the reduced form of the same configuration (POSITIONRED / VELOCITYRED blocks: three 15-character fields, no atom labels),
        # as other programs write it: the reader returns the same numbers
        red = os.path.join(d, "red.g96")
        with open(red, "w") as fh:
            fh.write("TITLE\nreduced\nEND\nPOSITIONRED\n" + "".join("".join(f"{x:15.9f}" for x in row) + "\n" for row in c["pos"]) + "END\n")
            if c["vel"] is not None:
                fh.write("VELOCITYRED\n" + "".join("".join(f"{x:15.9f}" for x in row) + "\n" for row in c["vel"]) + "END\n")
            if c["box"] is not None:
                fh.write("BOX\n" + "".join(f"{x:15.9f}" for x in c["box"]) + "\nEND\n")
        try:
            _, xyz_r, vel_r, box_r = read_gromos96_file(red)
        except Exception as exc:  # noqa: BLE001
            raise Violation(f"g96:read-raises:reduced-form:{type(exc).__name__}", f"{exc!r} case={c}")
        rec.check(close(xyz_r, c["pos"], 5e-10) and (c["vel"] is None or close(vel_r, c["vel"], 5e-10)) and (c["box"] is None or close(box_r, c["box"], 5e-10)),
                  "g96:read:reduced-form", f"pos {np.asarray(xyz_r).tolist()} vel {np.asarray(vel_r).tolist()} vs {c['pos']} {c['vel']}")
        # write what was read, read back with the independent reader
        out = os.path.join(d, "b.g96")
        write_gromos96_file(out, raw, xyz, vel if c["vel"] is not None else None, box)
        back = indep(read_g96, out, "g96:written-file-malformed")
        ref = read_g96(src)
        rec.check(back["labels"] == ref["labels"], "g96:write:atom-labels", f"{back['labels'][:2]} vs {ref['labels'][:2]}")
        rec.check(close(back["pos"], c["pos"], 1e-9), "g96:write:positions")
        if c["vel"] is not None:
            rec.check(back["vel"] is not None and close(back["vel"], c["vel"], 1e-9), "g96:write:velocities")
        rec.check((back["box"] is None) == (c["box"] is None) and (c["box"] is None or close(back["box"], c["box"], 1e-9)), "g96:write:box", f"{back['box']} vs {c['box']}")
        rec.check(back["title"] == ref["title"], "g96:write:title")
        # reverse velocities: only velocities change sign
        if c["vel"] is not None:
            eng = GromacsEngine.__new__(GromacsEngine)
            eng.ext = "g96"
            rv = os.path.join(d, "r.g96")
            eng._reverse_velocities(src, rv)
            r = indep(read_g96, rv, "g96:reversed-file-malformed")
            rec.check(close(r["vel"], -np.array(c["vel"]), 1e-9), "g96:reverse:velocities-not-negated")
            rec.check(close(r["pos"], c["pos"], 1e-9) and r["labels"] == ref["labels"] and r["title"] == ref["title"], "g96:reverse:changes-more-than-velocities")
            rec.check((r["box"] is None) == (c["box"] is None) and (c["box"] is None or close(r["box"], c["box"], 1e-9)), "g96:reverse:box-changed", f"{r['box']} vs {c['box']}")
    finally:
        isolate.rmscratch(d)


# ------------------------------------------------------------------- xyz / lammps
@st.composite
def traj_cases(draw):
    kind = draw(st.sampled_from(["xyz", "lammps"]))
    n = draw(st.integers(2 if kind == "lammps" else 1, 12))
    nf = draw(st.integers(1, 4))
    small = st.floats(-40, 40).map(lambda x: round(x, 8)) | st.sampled_from([0.0, -0.0, 12345.6789, -1234.5678, 1e-8])
    v3 = st.lists(small, min_size=3, max_size=3)
    frames = []
    for _ in range(nf):
        frames.append({"pos": [draw(v3) for _ in range(n)], "vel": [draw(v3) for _ in range(n)],
                       "order": list(draw(st.permutations(list(range(n))))),
                       "box": [[draw(st.sampled_from([0.0, 0.0, -3.5, 2.25])), draw(st.floats(10, 40).map(lambda x: round(x, 4)))] for _ in range(3)]})
    return {"kind": kind, "n": n, "frames": frames, "k": draw(st.integers(0, nf - 1)), "types": [draw(st.integers(1, 3)) for _ in range(n)],
            "names": [draw(st.sampled_from(["H", "O", "Ar"])) for _ in range(n)], "boxform": draw(st.sampled_from([3, 9, None]))}


def body_traj(rec, c):
    d = isolate.mkscratch("trj_")
    try:
        n, k = c["n"], c["k"]
        fr = c["frames"][k]
        shuffled = fr["order"] != sorted(fr["order"])
        lo_nonzero = any(b[0] != 0 for b in fr["box"])
        if c["kind"] == "xyz":
            from infretis.classes.engines.cp2k import CP2KEngine
            from infretis.classes.engines.engineparts import convert_snapshot, read_xyz_file, write_xyz_trajectory

            box = None if c["boxform"] is None else np.array([b[1] for b in fr["box"]] + ([0.0] * 6 if c["boxform"] == 9 else []))
            traj = os.path.join(d, "t.xyz")
            for i, f in enumerate(c["frames"]):
                b = None if c["boxform"] is None else np.array([x[1] for x in f["box"]] + ([0.0] * 6 if c["boxform"] == 9 else []))
                write_xyz_trajectory(traj, np.array(f["pos"]), np.array(f["vel"]), c["names"], b, step=i, append=True)
            rec.case(key=c, nontrivial=len(c["frames"]) >= 2 or c["boxform"] == 9, classes=["xyz", f"xyz:box={c['boxform']}", f"xyz:frames={len(c['frames'])}"])
            snaps = list(read_xyz_file(traj))
            rec.check(len(snaps) == len(c["frames"]), "xyz:frame-count", f"{len(snaps)}")
            for i, (s, f) in enumerate(zip(snaps, c["frames"])):
                b, xyz, vel, names = convert_snapshot(s)
                rec.check(close(xyz, f["pos"], 5e-10) and close(vel, f["vel"], 5e-10) and list(names) == c["names"], "xyz:round-trip", f"frame {i}")
                if c["boxform"] is not None:
                    want = [x[1] for x in f["box"]] + ([0.0] * 6 if c["boxform"] == 9 else [])
                    rec.check(b is not None and close(b, want, 5e-5), "xyz:box-round-trip", f"{b} vs {want}")
            # independent reader on the file written by infretis
            mine = indep(read_xyz, traj, "xyz:written-file-malformed")
            rec.check(close(mine["pos"], c["frames"][0]["pos"], 5e-10), "xyz:written-file-independent-read")
            out = os.path.join(d, "k.xyz")
            CP2KEngine._extract_frame(None, traj, k, out)
            ex = indep(read_xyz, out, "xyz:extracted-file-malformed")
            rec.check(close(ex["pos"], fr["pos"], 5e-10) and close(ex["vel"], fr["vel"], 5e-10) and ex["names"] == c["names"], "xyz:extract-frame-k", f"k={k}")
            rv = os.path.join(d, "r.xyz")
            eng = CP2KEngine.__new__(CP2KEngine)
            eng._reverse_velocities(out, rv)
            r = indep(read_xyz, rv, "xyz:reversed-file-malformed")
            rec.check(close(r["vel"], -np.array(fr["vel"]), 5e-10), "xyz:reverse:velocities-not-negated")
            rec.check(close(r["pos"], fr["pos"], 5e-10) and r["names"] == c["names"] and ((r["box"] is None) == (ex["box"] is None)) and (r["box"] is None or close(r["box"], ex["box"], 1e-9)),
                      "xyz:reverse:changes-more-than-velocities", f"{r['box']} vs {ex['box']}")
            return
        # ---- lammps
        from infretis.classes.engines.lammps import LAMMPSEngine, read_lammpstrj as rl, shift_boxbounds, write_lammpstrj

        traj = os.path.join(d, "t.lammpstrj")
        with open(traj, "w") as fh:
            for f in c["frames"]:
                fh.write(ek.lammps_frame_text(c["types"], f["pos"], f["vel"], f["box"], order=f["order"], trailing_id=True))
        rec.case(key=c, nontrivial=shuffled or lo_nonzero or len(c["frames"]) >= 2,
                 classes=["lammps", "lammps:shuffled-ids" if shuffled else "lammps:sorted", "lammps:nonzero-lower-bound" if lo_nonzero else "lammps:zero-lower"])
        try:
            id_type, pos, vel, box = rl(traj, k, n)
        except Exception as exc:  # noqa: BLE001
            raise Violation(f"lammps:read-raises:{type(exc).__name__}", f"{exc!r} case={c}")
        rec.check(close(pos, fr["pos"], 1e-12) and close(vel, fr["vel"], 1e-12), "lammps:read-frame-k-sorted-by-id", f"k={k} got {pos.tolist()[:2]} want {fr['pos'][:2]}")
        rec.check([int(x) for x in id_type[:, 0]] == list(range(1, n + 1)) and [int(x) for x in id_type[:, 1]] == c["types"], "lammps:ids-types")
        rec.check(close(box[:, :2], fr["box"], 1e-12), "lammps:box-bounds", f"{box.tolist()} vs {fr['box']}")
        out = os.path.join(d, "w.lammpstrj")
        write_lammpstrj(out, id_type, pos, vel, box)
        back = indep(read_lammpstrj, out, "lammps:written-file-malformed")
        rec.check(close(back["pos"], fr["pos"], 1e-12) and close(back["vel"], fr["vel"], 1e-12) and back["types"] == c["types"] and close(back["box"], fr["box"], 1e-12),
                  "lammps:write-round-trip")
        p2, b2 = shift_boxbounds(np.array(fr["pos"], float), np.array(box, float)[:, :2].copy())
        lo = np.array([b[0] for b in fr["box"]])
        rec.check(close(p2, np.array(fr["pos"]) - lo, 1e-12) and close(b2, [b[1] - b[0] for b in fr["box"]], 1e-12), "lammps:shift_boxbounds")
        eng = LAMMPSEngine.__new__(LAMMPSEngine)
        eng.n_atoms = n
        ex = os.path.join(d, "k.lammpstrj")
        eng._extract_frame(traj, k, ex)
        e = indep(read_lammpstrj, ex, "lammps:extracted-file-malformed")
        rec.check(close(e["pos"], fr["pos"], 1e-12) and close(e["vel"], fr["vel"], 1e-12), "lammps:extract-frame-k")
        rv = os.path.join(d, "r.lammpstrj")
        eng._reverse_velocities(ex, rv)
        r = indep(read_lammpstrj, rv, "lammps:reversed-file-malformed")
        rec.check(close(r["vel"], -np.array(fr["vel"]), 1e-12), "lammps:reverse:velocities-not-negated")
        rec.check(close(r["pos"], fr["pos"], 1e-12) and r["types"] == c["types"] and close(r["box"], fr["box"], 1e-12), "lammps:reverse:changes-more-than-velocities")
    finally:
        isolate.rmscratch(d)


# -------------------------------------------------------------------------- TRR
@st.composite
def trr_cases(draw):
    n = draw(st.integers(1, 20))
    nf = draw(st.integers(1, 5))
    frames = [{"x": [draw(VAL) for _ in range(3 * n)], "v": [draw(VAL) for _ in range(3 * n)], "box": [draw(st.floats(1, 30).map(lambda x: round(x, 5))) if i in (0, 4, 8) else 0.0 for i in range(9)]} for _ in range(nf)]
    if draw(st.booleans()):
        # triclinic cells (GROMACS stores the box vectors as rows: a = (xx,0,0), b = (yx,yy,0), c = (zx,zy,zz))
        for f in frames:
            f["box"][3], f["box"][6], f["box"][7] = draw(st.floats(0.1, 5).map(lambda x: round(x, 5))), draw(st.floats(-5, -0.1).map(lambda x: round(x, 5))), draw(st.floats(5.1, 9).map(lambda x: round(x, 5)))
    c = {"n": n, "frames": frames, "k": draw(st.integers(0, nf - 1)), "with_v": draw(st.booleans()), "with_f": draw(st.booleans())}
    if nf >= 2 and draw(st.booleans()):
        # velocities / forces written at other intervals than positions (nstvout, nstfout != nstxout): frames of different size
        c["v_on"] = [draw(st.booleans()) for _ in range(nf)]
        c["f_on"] = [draw(st.booleans()) for _ in range(nf)]
    if draw(st.sampled_from([False, False, True])):
        c["mats"] = [[draw(st.booleans()), draw(st.booleans()), draw(st.booleans())] for _ in range(nf)]
    return c


def body_trr(rec, c):
    from infretis.classes.engines.gromacs import GromacsEngine, read_trr_frame

    d = isolate.mkscratch("trr_")
    try:
        n, k = c["n"], c["k"]
        v_on = c.get("v_on") or [c["with_v"]] * len(c["frames"])
        f_on = c.get("f_on") or [c["with_f"]] * len(c["frames"])
        mixed = len(set(zip(v_on, f_on))) > 1
        # which of the box / virial / pressure matrices a frame carries (energy-file style output options; a frame may lack the box)
        mats = c.get("mats") or [[True, False, False]] * len(c["frames"])
        rec.case(key=c, nontrivial=len(c["frames"]) >= 2, sample={"natoms": n, "frames": len(c["frames"]), "k": k, "velocities_in_frame": v_on, "forces_in_frame": f_on} if mixed and len(rec.samples) < 1 else None,
                 classes=["trr", f"trr:frames={len(c['frames'])}"] + (["trr:frames-of-different-size"] if mixed else [])
                 + (["trr:frames-of-different-size-before-frame-k"] if len(set(zip(v_on[: k + 1], f_on[: k + 1]))) > 1 else []))
        decoded = {}
        for endian in (">", "<"):
            for double in (False, True):
                path = os.path.join(d, f"t_{'b' if endian == '>' else 'l'}_{'d' if double else 's'}.trr")
                with open(path, "wb") as fh:
                    for i, f in enumerate(c["frames"]):
                        raw, _ = trrref.encode_frame(n, i, 0.002 * i, 0.0, box=f["box"] if mats[i][0] else None, x=f["x"], v=f["v"] if v_on[i] else None,
                                                     f=f["x"] if f_on[i] else None, endian=endian, double=double,
                                                     vir=[-(q + 1) * 1.5 - i for q in range(9)] if mats[i][1] else None, pres=[(q + 1) * 0.25 + i for q in range(9)] if mats[i][2] else None)
                        fh.write(raw)
                try:
                    header, data = read_trr_frame(path, k)
                except Exception as exc:  # noqa: BLE001
                    raise Violation(f"trr:read-raises:{type(exc).__name__}", f"{exc!r} endian={endian} double={double}")
                rec.check(data is not None, "trr:frame-k-not-found", f"k={k} endian={endian} double={double}")
                fr = c["frames"][k]
                want_x = np.array(trrref.as_stored(fr["x"], endian, double)).reshape(n, 3)
                rec.check(np.array_equal(data["x"], want_x), "trr:positions", f"endian={endian} double={double} k={k}")
                if v_on[k]:
                    rec.check(np.array_equal(data["v"], np.array(trrref.as_stored(fr["v"], endian, double)).reshape(n, 3)), "trr:velocities", f"endian={endian} double={double}")
                else:
                    rec.check("v" not in data, "trr:velocities-invented")
                if mats[k][0]:
                    rec.check("box" in data and np.array_equal(data["box"], np.array(trrref.as_stored(fr["box"], endian, double)).reshape(3, 3)), "trr:box")
                else:
                    rec.check("box" not in data, "trr:box-invented", f"frame {k} has no box; decoded {data.get('box')}")
                for key, on, vals in (("vir", mats[k][1], [-(q + 1) * 1.5 - k for q in range(9)]), ("pres", mats[k][2], [(q + 1) * 0.25 + k for q in range(9)])):
                    if on:
                        rec.check(key in data and np.array_equal(data[key], np.array(trrref.as_stored(vals, endian, double)).reshape(3, 3)), f"trr:{key}", f"frame {k} matrices {mats[k]}: {data.get(key)}")
                    else:
                        rec.check(key not in data, f"trr:{key}-invented", f"frame {k} matrices {mats[k]}")
                rec.check(header["natoms"] == n and header["step"] == k and header["double"] == double and header["endian"] == endian, "trr:header", str({x: header[x] for x in ("natoms", "step", "double", "endian")}))
                decoded[(endian, double)] = data
        # both byte orders decode identically at equal precision
        for double in (False, True):
            a, b = decoded[(">", double)], decoded[("<", double)]
            rec.check(all(np.array_equal(a[key], b[key]) for key in a), "trr:byte-orders-decode-differently", f"double={double}")
        # engine: frame k of a trr -> g96
        if v_on[k] and mats[k][0]:
            eng = GromacsEngine.__new__(GromacsEngine)
            eng.ext = "g96"
            lab = [f"{1:>5d} {'RES':<5s} {'A':<5s}{i + 1:>7d}" for i in range(n)]
            eng.top = {"TITLE": ["t"], "POSITION": lab, "VELOCITY": list(lab), "BOX": ["x"]}
            out = os.path.join(d, "k.g96")
            eng._extract_frame(os.path.join(d, "t_b_d.trr"), k, out)
            g = indep(read_g96, out, "trr:extracted-g96-malformed")
            fr = c["frames"][k]
            rec.check(close(g["pos"], np.array(fr["x"]).reshape(n, 3), 5e-10) and close(g["vel"], np.array(fr["v"]).reshape(n, 3), 5e-10), "trr:extract-frame-k-to-g96", f"k={k}")
            rec.check(g["box"] is not None and close([g["box"][0], g["box"][1], g["box"][2]], [fr["box"][0], fr["box"][4], fr["box"][8]], 5e-10), "trr:extract-box", f"{g['box']} vs {fr['box']}")
            M = fr["box"]  # row-major 3x3
            if any(M[i] != 0 for i in (1, 2, 3, 5, 6, 7)):
                rec.cls("trr:triclinic-box")
                # g96 BOX block: XX YY ZZ XY XZ YX YZ ZX ZY
                want9 = [M[0], M[4], M[8], M[1], M[2], M[3], M[5], M[6], M[7]]
                rec.check(g["box"] is not None and len(g["box"]) == 9 and close(list(g["box"]), want9, 5e-10), "trr:extract-triclinic-box", f"g96 BOX {g['box']} vs XX YY ZZ XY XZ YX YZ ZX ZY = {want9}")
    finally:
        isolate.rmscratch(d)


# ------------------------------------------------------------------ mdp editor
KEYS = ["integrator", "nsteps", "dt", "nstxout", "nstvout", "tcoupl", "tau-t", "tau_t", "ref-t", "gen_vel", "gen-temp", "pbc", "continuation", "nstenergy"]


@st.composite
def mdp_cases(draw):
    lines = []
    used = []
    for _ in range(draw(st.integers(0, 10))):
        kind = draw(st.sampled_from(["kv", "kv", "kv", "comment", "blank", "kv-tight", "kv-comment"]))
        if kind == "comment":
            lines.append("; " + draw(st.sampled_from(["a comment", "nsteps = 5 old value", "dt=0.1"])))
        elif kind == "blank":
            lines.append("")
        else:
            key = draw(st.sampled_from([k for k in KEYS if k not in used] or ["extra"]))
            used.append(key)
            val = draw(st.sampled_from(["10", "0.002", "md-vv", "no", "xyz", "System", "1.0 1.0"]))
            if kind == "kv-tight":
                lines.append(f"{key}={val}")
            elif kind == "kv-comment":
                lines.append(f"{key}    = {val} ; LGTM")
            else:
                lines.append(f"{key:<24s}= {val}")
    nset = draw(st.integers(0, 5))
    settings = {}
    for _ in range(nset):
        # (the engines pass numbers as numbers: nsteps = 0 for a velocity-generation run, nstvout = 0, ...)
        settings[draw(st.sampled_from(KEYS))] = draw(st.sampled_from(["0", "25", "yes", "300.0", "-1", "0.5 0.5", 0, 0.0, 5000, 0.002, 1]))
    return {"lines": lines, "settings": settings}


def parse_mdp(text):
    out = []
    for ln in text.splitlines():
        body = ln.split(";")[0]
        if "=" in body:
            k, v = body.split("=", 1)
            out.append((k.strip(), v.strip()))
    return out


def body_mdp(rec, c):
    from infretis.classes.engines.enginebase import EngineBase

    d = isolate.mkscratch("mdp_")
    try:
        src, o1, o2 = (os.path.join(d, x) for x in ("in.mdp", "o1.mdp", "o2.mdp"))
        with open(src, "w") as fh:
            fh.write("\n".join(c["lines"]) + ("\n" if c["lines"] else ""))
        EngineBase._modify_input(src, o1, c["settings"], delim="=")
        EngineBase._modify_input(o1, o2, c["settings"], delim="=")
        before = parse_mdp(open(src).read())
        after = parse_mdp(open(o1).read())
        present = {k for k, _ in before}
        hit = [k for k in c["settings"] if k in present]
        rec.case(key=c, nontrivial=bool(hit) and len(c["settings"]) > len(hit), classes=["mdp", "mdp:replaces-existing" if hit else "mdp:appends-only"])
        want = [(k, str(c["settings"][k]) if k in c["settings"] else v) for k, v in before] + [(k, str(v)) for k, v in c["settings"].items() if k not in present]
        rec.check(after == want, "mdp:keys-differ-from-requested", f"got {after} want {want} case={c}")
        keys = [k for k, _ in after]
        rec.check(all(keys.count(k) == [x for x, _ in before].count(k) or k not in present for k in set(keys)) and all(keys.count(k) == 1 for k in c["settings"] if k not in present),
                  "mdp:key-written-twice", f"{keys}")
        rec.check(open(o1).read() == open(o2).read(), "mdp:not-idempotent", f"second application changed the file; case={c}")
        # untouched lines are byte-identical
        l0 = open(src).read().splitlines()
        l1 = open(o1).read().splitlines()
        for a, b in zip(l0, l1):
            ka = parse_mdp(a)
            if not ka or ka[0][0] not in c["settings"]:
                rec.check(a == b, "mdp:unrelated-line-changed", f"{a!r} -> {b!r}")
    finally:
        isolate.rmscratch(d)


# ------------------------------------------------------------------ cp2k editor
SEC = ["GLOBAL", "MOTION", "MD", "PRINT", "RESTART", "EACH", "FORCE_EVAL", "SUBSYS", "CELL", "TOPOLOGY", "KIND", "DFT", "SCF", "VELOCITY"]
DKEY = ["STEPS", "TIMESTEP", "PROJECT", "RUN_TYPE", "BACKUP_COPIES", "MD", "ABC", "ENSEMBLE", "TEMPERATURE"]


@st.composite
def tree_st(draw, depth=0):
    title = draw(st.sampled_from(SEC))
    params = [draw(st.sampled_from(["H", "O", "C"]))] if title == "KIND" else []
    data = []
    seen = set()
    for _ in range(draw(st.integers(0, 3))):
        k = draw(st.sampled_from(DKEY))
        if k not in seen:
            seen.add(k)
            data.append(f"{k} {draw(st.sampled_from(['1', '0.5', 'MD', 'x y z']))}")
    if draw(st.integers(0, 3)) == 0:
        # keywords that CP2K allows several times in one section (LIST in FIXED_ATOMS, BASIS_SET_FILE_NAME in DFT, ...)
        rk = draw(st.sampled_from(["LIST", "BASIS_SET_FILE_NAME"]))
        for i in range(draw(st.integers(2, 3))):
            data.insert(draw(st.integers(0, len(data))), f"{rk} {'abc'[i]}{i + 1}")
    children = []
    if depth < 3:
        titles = set()
        for _ in range(draw(st.integers(0, 3))):
            ch = draw(tree_st(depth + 1))
            key = (ch["title"], tuple(ch["params"]))
            if ch["title"] != "KIND" and ch["title"] in {t for t, _ in titles}:
                continue
            if key in titles:
                continue
            titles.add(key)
            children.append(ch)
        if draw(st.integers(0, 4)) == 0:
            # sibling sections with one and the same header (several &COLVAR blocks in SUBSYS, &FIXED_ATOMS / &COLLECTIVE in
            # CONSTRAINT, ...): legal and usual; no caller addresses them, they are carried over as they are
            rt = draw(st.sampled_from(["COLVAR", "FIXED_ATOMS", "COLLECTIVE"]))
            rp = [draw(st.sampled_from(["ON", "1"]))] if draw(st.integers(0, 3)) == 0 else []
            for i in range(draw(st.integers(2, 3))):
                children.insert(draw(st.integers(0, len(children))), {"title": rt, "params": list(rp), "data": [f"ATOMS {i + 1} {i + 2}"] + ([f"TARGET 0.{i}"] if draw(st.booleans()) else []), "children": []})
    return {"title": title, "params": params, "data": data, "children": children}


def paths_of(node, prefix=""):
    p = f"{prefix}->{node['title']}" if prefix else node["title"]
    out = [(p, node)]
    for ch in node["children"]:
        out += paths_of(ch, p)
    return out


@st.composite
def cp2k_cases(draw):
    roots = []
    titles = set()
    for _ in range(draw(st.integers(1, 3))):
        t = draw(tree_st())
        if t["title"] in titles or t["title"] == "KIND":
            continue
        titles.add(t["title"])
        roots.append(t)
    if not roots:
        roots = [{"title": "GLOBAL", "params": [], "data": ["PROJECT x"], "children": []}]
    allp = [p for r in roots for p, nd in paths_of(r) if "KIND" not in p]
    # unique existing targets only (section names repeated among siblings are not targeted by any caller)
    uniq = [p for p in allp if allp.count(p) == 1]
    ups = {}
    for _ in range(draw(st.integers(0, 3))):
        if uniq and draw(st.booleans()):
            tgt = draw(st.sampled_from(uniq))
        else:
            base = draw(st.sampled_from(uniq)) if uniq and draw(st.booleans()) else None
            new = draw(st.sampled_from(["NEWSEC", "EXTRA", "PRINT2"]))
            tgt = f"{base}->{new}" if base else new
        if draw(st.booleans()):
            ups[tgt] = {"data": [f"{draw(st.sampled_from(DKEY))} {draw(st.sampled_from(['7', 'q']))}" for _ in range(draw(st.integers(0, 2)))], "replace": True}
        else:
            ups[tgt] = {"data": {draw(st.sampled_from(DKEY)): draw(st.sampled_from(["9", "0.25", "NVE"])) for _ in range(draw(st.integers(1, 2)))}}
        if draw(st.integers(0, 4)) == 0:
            # a section parameter (what follows the section name on its header line), e.g. &PRINT ON
            ups[tgt]["settings"] = [draw(st.sampled_from(["ON", "SILENT", "T"]))]
    if draw(st.integers(0, 3)) == 0:
        # two requested sections below one and the same section that the template lacks (MOTION->PRINT->VELOCITIES->EACH and
        # MOTION->PRINT->TRAJECTORY->EACH on a template without &PRINT - what write_for_run_vel asks for)
        base = draw(st.sampled_from(uniq)) if uniq and draw(st.booleans()) else None
        par = (base + "->" if base else "") + draw(st.sampled_from(["PRINT3", "NEWPAR"]))
        for leaf in ("VELOCITIES->EACH", "TRAJECTORY->EACH") if draw(st.booleans()) else ("AAA", "BBB"):
            ups[f"{par}->{leaf}"] = {"data": {"MD": draw(st.sampled_from(["1", "5"]))}}
    rem = [draw(st.sampled_from(uniq + ["NOPE", "MOTION->NOPE"])) for _ in range(draw(st.integers(0, 2)))] if draw(st.booleans()) else []
    rem = [r for r in rem if not any(t == r or t.startswith(r + "->") or r.startswith(t + "->") for t in ups)]
    return {"roots": roots, "update": ups, "remove": rem}


def tree_text(node, lvl=0):
    pre = "  " * lvl
    s = f"{pre}&{node['title']}" + ("" if not node["params"] else " " + " ".join(node["params"])) + "\n"
    for dl in node["data"]:
        s += f"{pre}  {dl}\n"
    for ch in node["children"]:
        s += tree_text(ch, lvl + 1)
    return s + f"{pre}&END {node['title']}\n"


def parse_tree(text):
    """Independent parser -> canonical nested tuples (children as sorted multiset)."""
    roots, stack = [], []
    for ln in text.splitlines():
        s = ln.strip()
        if not s:
            continue
        if s.startswith("&"):
            sp = s[1:].split()
            if sp[0].upper() == "END":
                node = stack.pop()
                if stack:
                    stack[-1]["children"].append(node)
                else:
                    roots.append(node)
            else:
                stack.append({"title": sp[0].upper(), "params": sp[1:], "data": [], "children": []})
        elif stack:
            stack[-1]["data"].append(" ".join(s.split()))
    return roots


def canon(node):
    return (node["title"], tuple(node["params"]), tuple(" ".join(d.split()) for d in node["data"]), tuple(sorted(canon(ch) for ch in node["children"])))


def apply_model(roots, update, remove):
    """Reference semantics of update_cp2k_input on the plain tree."""
    import copy

    roots = copy.deepcopy(roots)

    def find(path, create=False):
        parts = path.split("->")
        level = roots
        node = None
        for i, t in enumerate(parts):
            nxt = [nd for nd in level if nd["title"] == t]
            if not nxt:
                if not create:
                    return None, None
                new = {"title": t, "params": [], "data": [], "children": []}
                level.append(new)
                nxt = [new]
            node, parent_level = nxt[0], level
            level = node["children"]
        return node, parent_level

    for tgt, val in update.items():
        node, _ = find(tgt)
        data = val.get("data", {})
        sett = list(val.get("settings", []))
        if node is None:
            node, _ = find(tgt, create=True)
            node["data"] = list(data) if isinstance(data, list) else [f"{k} {v}" for k, v in data.items()]
            node["params"] = sett
            continue
        node["params"] = sett if val.get("replace") else list(node["params"]) + sett
        if val.get("replace"):
            node["data"] = list(data)
        else:
            new, done = [], set()
            for ln in node["data"]:
                key = ln.split()[0]
                if key in data:
                    new.append(f"{key} {data[key]}")
                    done.add(key)
                else:
                    new.append(ln)
            for k, v in data.items():
                if k not in done:
                    new.append(f"{k} {v}")
            node["data"] = new
    for r in remove:
        node, lvl = find(r)
        if node is not None:
            lvl.remove(node)
    return roots


def body_cp2k(rec, c):
    from infretis.classes.engines.cp2k import update_cp2k_input

    d = isolate.mkscratch("cp2k_")
    try:
        src, o1, o2 = (os.path.join(d, x) for x in ("in.inp", "o1.inp", "o2.inp"))
        with open(src, "w") as fh:
            fh.write("\n".join(tree_text(r) for r in c["roots"]))
        kinds = sum(1 for r in c["roots"] for p, nd in paths_of(r) if nd["title"] == "KIND")
        rec.case(key=c, nontrivial=bool(c["update"]) and (kinds >= 2 or bool(c["remove"])), classes=["cp2k", f"cp2k:updates={len(c['update'])}", "cp2k:repeated-KIND" if kinds >= 2 else "cp2k:no-repeats"]
                 + (["cp2k:section-with-repeated-keyword"] if any(sum(1 for dl in nd["data"] if dl.split()[0] in ("LIST", "BASIS_SET_FILE_NAME")) >= 2 for r in c["roots"] for _, nd in paths_of(r)) else []))
        try:
            update_cp2k_input(src, o1, update=c["update"], remove=c["remove"])
            update_cp2k_input(o1, o2, update=c["update"], remove=c["remove"])
        except Exception as exc:  # noqa: BLE001
            raise Violation(f"cp2k:update-raises:{type(exc).__name__}", f"{exc!r} case={c}")
        got = sorted(canon(n) for n in parse_tree(open(o1).read()))
        want = sorted(canon(n) for n in apply_model(parse_tree(open(src).read()), c["update"], c["remove"]))
        rec.check(got == want, "cp2k:tree-differs-from-requested-edit", f"got {got}\n want {want}\n case={c}")
        got2 = sorted(canon(n) for n in parse_tree(open(o2).read()))
        if any(v.get("settings") and not v.get("replace") for v in c["update"].values()):
            rec.cls("cp2k:section-parameter-appended(idempotence-not-claimed)")  # appending a parameter twice gives it twice, by the editor's definition
        else:
            rec.check(got2 == got, "cp2k:not-idempotent", f"{got2} vs {got} case={c}")
    finally:
        isolate.rmscratch(d)


# --------------------------------------------------------------- lammps template
@st.composite
def lmp_cases(draw):
    extra = [draw(st.sampled_from(["# infretis_timestep_old 5", "units real", "# note: infretis variables above", "fix 1 all nve", "variable other index infretis_nsteps2", ""])) for _ in range(draw(st.integers(0, 5)))]
    vals = {"infretis_timestep": draw(st.sampled_from([0.5, 1, 2.0])), "infretis_nsteps": draw(st.integers(1, 5000)), "infretis_subcycles": draw(st.integers(1, 10)),
            "infretis_initconf": draw(st.sampled_from(["/a/b/c.lammpstrj", "conf.lammpstrj"])), "infretis_name": draw(st.sampled_from(["000_1_2_trajF", "x"])),
            "infretis_lammpsdata": "/p/lammps.data", "infretis_temperature": draw(st.sampled_from([300, 1.5])), "infretis_seed": draw(st.integers(0, 10**7))}
    return {"extra": extra, "vals": vals, "pos": draw(st.integers(0, 8))}


def body_lmp(rec, c):
    from infretis.classes.engines.lammps import write_for_run

    d = isolate.mkscratch("lmp_")
    try:
        tmpl = ek.LAMMPS_INPUT.splitlines()
        lines = tmpl[: c["pos"]] + c["extra"] + tmpl[c["pos"] :]
        src, o1, o2 = (os.path.join(d, x) for x in ("lammps.input", "run1.inp", "run2.inp"))
        with open(src, "w") as fh:
            fh.write("\n".join(lines) + "\n")
        rec.case(key=c, nontrivial=any("infretis_" in e for e in c["extra"]), classes=["lammps-template"])
        write_for_run(src, o1, dict(c["vals"]))
        write_for_run(src, o2, dict(c["vals"]))
        rec.check(open(o1).read() == open(o2).read(), "lammps-template:not-a-function-of-template-and-settings")
        out = open(o1).read().splitlines()
        rec.check(len(out) == len(lines), "lammps-template:line-count-changed")
        for a, b in zip(lines, out):
            toks = a.split()
            var = [v for v in c["vals"] if v in toks]
            if var:
                want = a.replace(var[0], str(c["vals"][var[0]]))
                rec.check(b == want, "lammps-template:variable-not-substituted", f"{a!r} -> {b!r} want {want!r}")
            else:
                rec.check(a == b, "lammps-template:unrelated-line-changed", f"{a!r} -> {b!r}")
        missing = dict(c["vals"])
        missing["infretis_not_there"] = 1
        try:
            write_for_run(src, os.path.join(d, "x.inp"), missing)
            rec.check(False, "lammps-template:missing-variable-not-reported")
        except ValueError:
            pass
    finally:
        isolate.rmscratch(d)


PARTS = {"g96": (g96_cases, body_g96), "traj": (traj_cases, body_traj), "trr": (trr_cases, body_trr), "mdp": (mdp_cases, body_mdp), "cp2k": (cp2k_cases, body_cp2k), "lmp": (lmp_cases, body_lmp)}


def run(ctx):
    ctx.rule = (
        "Hypothesis: (g96) 1-12 atoms, values incl. field-filling magnitudes (-1234.5, 12345.678...), 3/9/no box: read of independently written "
        "files, write->independent read, reverse velocities; (xyz, lammpstrj) multi-frame files, shuffled ids, non-zero lower box bounds, "
        "extract frame k, reverse velocities, shift_boxbounds; (TRR) frames in 2 byte orders x 2 precisions from an independent struct encoder: "
        "exact decode, identical across byte orders, frame k -> g96; (mdp) templates with comments, tight '=', trailing comments: output parsed by "
        "an independent parser differs exactly in the requested keys, no key twice, second application byte-identical; (CP2K) random section trees "
        "(depth <= 4, repeated &KIND X) compared as unordered trees with a reference edit model, idempotent; (LAMMPS) template variables on one "
        "line each, unrelated lines byte-identical, missing variable reported. Non-trivial: >=2 atoms/frames, 9-component box, shuffled ids, "
        "non-zero lower bound, width-limit value, replaced+appended keys, repeated sections or removals."
    )
    ctx.assumptions = ["editors are driven with the engines' call patterns (update_cp2k_input: data dict without replace, data list with replace, no section parameters appended; unique targets)",
                       "LAMMPS write_for_run consumes the variables, so idempotence there means 'a function of template and settings'"]
    n = ctx.pick(1500, 25000)
    for name, (strat, body) in PARTS.items():
        run_property(ctx, name, strat, body, n if name not in ("trr",) else n // 3)


def replay(ctx, data):
    strat, body = PARTS[data["part"]]
    try:
        body(ctx, data["case"])
    except Violation as v:
        ctx.violation(v.signature, v.message, data)
