"""C06 - same seed, same run: determinism and restart equivalence."""

import os

from hypothesis import strategies as st

from checks import hist
from vlib import isolate, simdrv
from vlib.cli import Violation
from vlib.hyp import run_property

SEEDS = st.sampled_from([0, 1, 7, 2**31 + 5, 2**32 - 1]) | st.integers(0, 2**32 - 1)


# --------------------------------------------------------------- snapshots
def snapshot(d):
    """Observable result of a run, free of process ids / call counters in file names."""
    import tomli
    import tomli_w

    out = {}
    with open(os.path.join(d, "restart.toml"), "rb") as fh:
        cfg = tomli.load(fh)
    cfg["current"].pop("restarted_from", None)
    out["restart.toml"] = tomli_w.dumps(cfg)
    df = os.path.join(d, cfg["output"]["data_file"])
    out["data"] = open(df).read()
    for pn in cfg["current"]["active"]:
        pdir = os.path.join(d, cfg["simulation"]["load_dir"], str(pn))
        for f in ("order.txt", "energy.txt"):
            p = os.path.join(pdir, f)
            out[f"{pn}/{f}"] = open(p).read() if os.path.exists(p) else None
        names, rows = {}, []
        tp = os.path.join(pdir, "traj.txt")
        if os.path.exists(tp):
            for line in open(tp):
                if line.startswith("#"):
                    continue
                sp = line.split()
                names.setdefault(sp[1], len(names))
                rows.append((sp[0], names[sp[1]], sp[2], sp[3]))
        out[f"{pn}/traj"] = rows
        for name, k in names.items():
            fp = os.path.join(pdir, "accepted", name)
            out[f"{pn}/file{k}"] = open(fp).read() if os.path.exists(fp) else "<missing>"
    return out, cfg


def diff_keys(a, b):
    keys = sorted(set(a) | set(b))
    return [k for k in keys if a.get(k) != b.get(k)]


def first_diff(a, b):
    if not isinstance(a, str) or not isinstance(b, str):
        return f"{str(a)[:200]} vs {str(b)[:200]}"
    la, lb = a.splitlines(), b.splitlines()
    for i, (x, y) in enumerate(zip(la, lb)):
        if x != y:
            return f"line {i}: {x[:160]!r} vs {y[:160]!r}"
    return f"length {len(la)} vs {len(lb)} lines"


def run_chain(spec, points, schedule_seed=0, workers_policy="oldest", prelude=None):
    """Clean stops at the given cumulative step counts; returns (snapshot, cfg, results).
    prelude: every lifetime is preceded by an unrelated simulation in the same interpreter."""
    segs = [{"steps": p, "policy": workers_policy, "policy_seed": schedule_seed} for p in points]
    if prelude:
        for sg in segs:
            sg["prelude"] = dict(prelude)
    h = simdrv.run_history(spec, segs, {}, keep=True)
    try:
        for k, r in enumerate(h["results"]):
            if r.get("exc"):
                raise Violation(f"C06:run-aborted:{r['exc'][1]}:{hist.frames(r['exc'][3] if len(r['exc'])>3 else '')}", f"segment {k} of chain {points}: {r['exc'][2]}")
            if r.get("config_none"):
                raise Violation("C06:restart-refused", f"segment {k} of chain {points}")
        snap, cfg = snapshot(h["rundir"])
        return snap, cfg, h["results"]
    finally:
        simdrv.isolate.rmscratch(h["rundir"])


# ------------------------------------------------------- (a) one worker
@st.composite
def split_cases(draw):
    n = draw(st.sampled_from([2, 3, 4, 5]))
    moves = ["sh"] + [draw(st.sampled_from(["sh", "wf"])) for _ in range(n - 1)]
    N = draw(st.integers(4, 36))
    k = draw(st.integers(1, 3))
    pts = sorted(set(draw(st.lists(st.integers(1, N - 1), min_size=1, max_size=k))))
    spec = simdrv.lattice_spec(
        n=n, moves=moves, workers=1, steps=N, seed=draw(SEEDS), wall=draw(st.sampled_from([-1, -3])),
        n_jumps=draw(st.sampled_from([1, 1, 2, 4])), maxlength=draw(st.sampled_from([12, 30, 300])),
        allowmaxlength=draw(st.booleans()), delete_old=draw(st.booleans()), delete_old_all=False,
    )
    if spec["delete_old"]:
        spec["delete_old_all"] = draw(st.booleans())
    # wire-fencing cap (the walker moves by one, so any cap above the top-most wf interface leaves room), lambda_-1, and a translated
    # copy of the system that puts the cap / lambda_0 / lambda_-1 on 0.0
    wf = [j for j in range(1, n) if moves[j] == "wf"]
    if wf and max(wf) <= n - 1 and draw(st.booleans()):
        spec["cap"] = draw(st.integers(max(wf), n - 1)) + 0.5
    if draw(st.sampled_from([False, False, True])):
        spec["lm1"], spec["wall"] = draw(st.sampled_from([-1.5, -2.5])), -4
    spec["origin"] = draw(st.sampled_from([0.0, 0.0, 0.5, spec["cap"] if spec["cap"] is not None else 1.5, spec["lm1"] if spec["lm1"] is not None else -1.0]))
    return {"spec": spec, "N": N, "points": pts}


def body_split(rec, c):
    spec, N, pts = c["spec"], c["N"], c["points"]
    if spec["allowmaxlength"]:
        ref_chain, other = [N], pts + [N]
        mode = "straight-vs-chain"
    else:
        # the 'initial path' marker is lost at a restart (documented TODO): compare restart chains
        ref_chain, other = [pts[0], N], pts + [N] if len(pts) > 1 else [pts[0], max(pts[0] + 1, (pts[0] + N) // 2), N]
        other = sorted(set(other))
        mode = "chain-vs-chain"
    a, cfg_a, res_a = run_chain(spec, ref_chain)
    b, cfg_b, res_b = run_chain(spec, other)
    acc = sum(r["stats"].get("accepted", 0) for r in res_a)
    inner = len(other) > len(ref_chain)
    nt = inner and spec["seed"] != 0 and acc >= 2
    rec.case(key=c, nontrivial=nt, classes=["split", mode, "seed0" if spec["seed"] == 0 else "seed!=0", f"accepted>={min(acc,3)}"],
             sample={"spec": spec, "reference": ref_chain, "compared": other, "accepted_moves": acc} if nt and len(rec.samples) < 2 else None)
    dk = diff_keys(a, b)
    if dk:
        k0 = dk[0]
        what = "data-file" if k0 == "data" else ("restart-file" if k0 == "restart.toml" else "live-path-files")
        rec.check(False, f"C06:restart-chain-differs:{what}:{'seed0' if spec['seed']==0 else 'seed!=0'}",
                  f"{mode}: {ref_chain} vs {other}; differing: {dk[:6]}; first: {first_diff(a.get(k0), b.get(k0))}\n  spec={spec}")
    # two identical executions agree
    if c["N"] % 3 == 0:
        # (the second execution may come after an unrelated simulation in the same interpreter - a script that runs several)
        pre = {"steps": 3 + c["N"] % 5, "seed": c["N"]} if c["N"] % 2 == 0 else None
        a2, _, _ = run_chain(spec, ref_chain, prelude=pre)
        dk = diff_keys(a, a2)
        rec.cls("repeat-compared" + (":after-another-simulation-in-the-interpreter" if pre else ""))
        rec.check(not dk, "C06:same-seed-different-run" + (":after-another-simulation-in-the-interpreter" if pre else ""),
                  f"{dk[:5]}; first: {first_diff(a.get(dk[0]), a2.get(dk[0])) if dk else ''} spec={spec}")
    # (c) restarting a finished run is a no-op
    if c["N"] % 4 == 0:
        a3, cfg3, res3 = run_chain(spec, other + [N])
        rec.cls("noop-compared")
        rec.check(res3[-1].get("treat_count", 0) == 0 and res3[-1].get("prep_count", 0) == 0, "C06:finished-run-restarted-does-work", f"{res3[-1].get('prep_count')} jobs")
        rec.check(not diff_keys(b, a3), "C06:finished-run-restart-changes-files", f"{diff_keys(b, a3)[:5]}")


# ---------------------------------------------------- (b) several workers
@st.composite
def kill_cases(draw):
    h = draw(hist.history_st(max_steps=36, max_segments=3, max_n=6, min_workers=2, kills=True))
    if len(h["segments"]) == 1:
        seg = dict(h["segments"][0])
        seg2 = dict(seg)
        seg["kill_after"] = draw(st.integers(1, max(1, seg["steps"] - 1)))
        seg2["steps"] = seg["steps"] + h["spec"]["workers"] + draw(st.integers(0, 6))
        h["segments"] = [seg, seg2]
    return h


def run_kill_history(case):
    """Runs the history; returns (violations, per-lifetime info, snapshot)."""
    spec, segs = case["spec"], case["segments"]
    h = simdrv.run_history(spec, segs, {"track_inflight": 1}, keep=True)
    try:
        out = []
        for k, r in enumerate(h["results"]):
            if r.get("exc"):
                tb = r["exc"][3] if len(r["exc"]) > 3 else ""
                raise Violation(f"C06:run-aborted:{r['exc'][1]}:{hist.frames(tb)}", f"segment {k}: {r['exc'][2]} case={case}")
            out.append(r)
        snap = snapshot(h["rundir"])[0] if os.path.exists(os.path.join(h["rundir"], "restart.toml")) else {}
        return out, snap
    finally:
        simdrv.isolate.rmscratch(h["rundir"])


def body_kill(rec, c):
    res, snap = run_kill_history(c)
    nkill_inflight = 0
    chain_of_restarts = False
    for k in range(1, len(res)):
        prev, cur = res[k - 1], res[k]
        if cur.get("config_none"):
            pc = prev.get("cstep_end") if prev.get("cstep_end") is not None else prev.get("cstep_start")
            if pc is not None and c["segments"][k]["steps"] > pc:
                rec.check(False, "C06:kill:restart-refused-with-steps-left", f"restart {k}: setup_config returned None at step {pc} of {c['segments'][k]['steps']}; case={c}")
            continue
        # jobs in flight as of the last completed step of the previous lifetime (what the stop recorded)
        expected = prev["carry"].get("inflight_at_last_step", []) if prev.get("killed") else []
        if prev.get("killed") and prev.get("treat_count", 0) == 0:
            # killed before completing a step in that lifetime: the file on disk is the one it started from
            expected = prev["carry"].get("inflight_at_last_step", [])
        # a restart with fewer steps left than recorded jobs re-issues only as many as it needs (the others are surplus)
        remaining = max(0, c["segments"][k]["steps"] - cur.get("cstep_start", 0))
        w_now = c["segments"][k].get("workers", c["spec"]["workers"])  # a restart on fewer workers re-issues at most that many
        m = min(len(expected), remaining, w_now)
        issued = cur.get("issued_all", [])[:m]
        want = sorted((tuple(e["ens"]), tuple(str(p) for p in e["paths"])) for e in expected)
        got = sorted((tuple(i[0]), tuple(i[1])) for i in issued)
        if expected:
            nkill_inflight += 1
            if k >= 2:
                chain_of_restarts = True
        if m < len(expected):
            rec.cls("kill:restart-with-fewer-steps-left-than-recorded-jobs")
            pool = list(want)
            ok = len(got) == m
            for g in got:
                if g in pool:
                    pool.remove(g)
                else:
                    ok = False
        else:
            ok = got == want
        rec.check(ok, f"C06:in-flight-jobs-not-reissued:{'after-earlier-restart' if k >= 2 else 'first-restart'}",
                  f"restart {k}: in flight at the stop {want}, first jobs issued {got} (steps left {remaining}, workers {w_now})\n  case={c}")
    nt = nkill_inflight >= 1
    rec.case(key=c, nontrivial=nt, classes=["kill", f"workers={c['spec']['workers']}", "reissue-after-earlier-restart" if chain_of_restarts else "reissue-first"],
             sample={"spec": c["spec"], "segments": [{k: v for k, v in s.items() if k != "schedule"} for s in c["segments"]]} if nt and len(rec.samples) < 2 else None)
    # determinism of equal (seed, schedule, kill points)
    if len(c["segments"][0].get("schedule", [])) % 2 == 0:
        res2, snap2 = run_kill_history(c)
        rec.cls("kill:repeat-compared")
        dk = diff_keys(snap, snap2)
        rec.check(not dk, "C06:same-seed-schedule-kill-different-result", f"{dk[:5]} case={c}")


# ------------------------------------------- (a') the real TurtleMD engine (double well, files in xyz format)
@st.composite
def tmd_cases(draw):
    N = draw(st.integers(4, 22))
    pts = sorted(set(draw(st.lists(st.integers(1, N - 1), min_size=1, max_size=2))))
    moves = draw(st.sampled_from([["sh"] * 8, ["sh", "sh", "wf", "wf", "wf", "wf", "wf", "wf"], ["sh", "wf", "sh", "wf", "sh", "wf", "sh", "sh"]]))
    dl = draw(st.sampled_from(["off", "on", "all"]))
    # wire-fencing cap: unset, the top of the barrier (0.0, a falsy number), or somewhere else above the last wf interface
    cap = draw(st.sampled_from([None, 0.0, 0.0, -0.1, 0.4])) if "wf" in moves else None
    amx = draw(st.sampled_from([True, True, False]))
    spec = {"engine": "turtlemd", "cap": cap, "n": 8, "moves": moves, "workers": 1, "steps": N, "seed": draw(SEEDS), "allowmaxlength": amx, "n_jumps": draw(st.sampled_from([1, 2, 6])),
            "maxlength": draw(st.sampled_from([60, 200, 2000])), "delete_old": dl != "off", "delete_old_all": dl == "all", "zeroswap": None}
    if draw(st.sampled_from([False, False, True])):
        # a narrow 4-interface layout near the bottom of the well, short length limit: many rejected moves of all kinds
        spec.update({"interfaces": [-0.99, -0.9, -0.8, 1.0], "n": 4, "moves": draw(st.sampled_from([["sh", "sh", "wf", "sh"], ["sh", "wf", "wf", "sh"], ["sh", "sh", "sh", "wf"]])),
                     "n_jumps": draw(st.sampled_from([1, 2])), "maxlength": 60, "cap": None})
    return {"spec": spec, "N": N, "points": pts}


def body_tmd(rec, c):
    spec, N, pts = c["spec"], c["N"], c["points"]
    if spec["allowmaxlength"]:
        ref = [N]
    else:
        # without allowmaxlength the first restart turns the loaded initial paths into ordinary ones (documented): compare a chain
        # with a longer chain that shares its first stop
        ref = [pts[0], N]
        pts = sorted(set(pts + [min(N - 1, pts[0] + 1 + (N - pts[0]) // 2)]))
        if pts + [N] == ref:
            rec.case(key=None, nontrivial=False, classes=["turtlemd:no-longer-chain-possible"])
            return
    a, cfg_a, res_a = run_chain(spec, ref)
    b, cfg_b, res_b = run_chain(spec, pts + [N])
    acc = sum(r["stats"].get("accepted", 0) for r in res_a)
    nt = spec["seed"] != 0 and acc >= 2
    rec.case(key=c, nontrivial=nt, classes=["turtlemd", "turtlemd:straight-vs-chain" if ref == [N] else "turtlemd:chain-vs-chain", f"turtlemd:cap={spec['cap']}", "turtlemd:seed0" if spec["seed"] == 0 else "turtlemd:seed!=0", f"turtlemd:accepted>={min(acc, 3)}"],
             sample={"spec": spec, "split_points": pts, "accepted_moves": acc} if nt and len(rec.samples) < 3 else None)
    dk = diff_keys(a, b)
    if dk:
        k0 = dk[0]
        what = "data-file" if k0 == "data" else ("restart-file" if k0 == "restart.toml" else "live-path-files")
        rec.check(False, f"C06:turtlemd:restart-chain-differs:{what}", f"{ref} vs {pts + [N]}; differing: {dk[:6]}; first: {first_diff(a.get(k0), b.get(k0))}\n  spec={spec}")
    if N % 3 == 0:
        a2, _, _ = run_chain(spec, ref)
        rec.check(not diff_keys(a, a2), "C06:turtlemd:same-seed-different-run", f"{diff_keys(a, a2)[:5]}")


# ------------------------------------------- (a'') fresh interpreters: the real entry point, string-hash randomisation varied
FRESH_CHILD = """
import os, sys
from infretis.bin import internalrun
internalrun("infretis.toml")
"""


def run_fresh(spec, hashseed):
    """One run through infretis.bin.internalrun (real scheduler and process pool) in a fresh interpreter."""
    import subprocess
    import sys

    d = simdrv.make_rundir_turtlemd(spec)
    try:
        env = dict(os.environ, PYTHONHASHSEED=str(hashseed))
        p = subprocess.run([sys.executable, "-c", FRESH_CHILD], cwd=d, env=env, stdout=subprocess.PIPE, stderr=subprocess.STDOUT, text=True, timeout=900)
        if p.returncode != 0:
            return None, p.stdout[-1500:]
        return snapshot(d)[0], ""
    finally:
        isolate.rmscratch(d)


@st.composite
def fresh_cases(draw):
    N = draw(st.integers(4, 16))
    two = draw(st.booleans())
    moves = draw(st.sampled_from([["sh"] * 8, ["sh", "sh", "wf", "wf", "wf", "wf", "wf", "wf"]]))
    spec = {"engine": "turtlemd", "two_engines": two, "cap": None, "n": 8, "moves": moves, "workers": 1, "steps": N, "seed": draw(st.integers(1, 10**6)), "allowmaxlength": True,
            "n_jumps": 2, "maxlength": 500, "delete_old": False, "delete_old_all": False, "zeroswap": None}
    hs = draw(st.lists(st.integers(0, 4000), min_size=2, max_size=2, unique=True))
    return {"spec": spec, "hashseeds": hs}


def body_fresh(rec, c):
    spec, hs = c["spec"], c["hashseeds"]
    a, ea = run_fresh(spec, hs[0])
    b, eb = run_fresh(spec, hs[1])
    rec.check(a is not None and b is not None, "C06:fresh:run-failed", f"{(ea or eb)[-600:]}\n  spec={spec}")
    rec.case(key=c, nontrivial=True, classes=["fresh", "fresh:two-engines" if spec["two_engines"] else "fresh:one-engine"],
             sample={"spec": spec, "PYTHONHASHSEED": hs} if len(rec.samples) < 2 else None)
    dk = diff_keys(a, b)
    if dk:
        k0 = dk[0]
        rec.check(False, "C06:fresh:same-seed-different-interpreter", f"PYTHONHASHSEED {hs[0]} vs {hs[1]}: differing {dk[:6]}; first: {first_diff(a.get(k0), b.get(k0))}\n  spec={spec}")


PARTS = {"split": (split_cases, body_split), "kill": (kill_cases, body_kill), "turtlemd": (tmd_cases, body_tmd), "fresh": (fresh_cases, body_fresh)}


def run(ctx):
    ctx.rule = (
        "(a) one worker, lattice plug-in engine: N<=36 steps in one go vs chains of clean stops at generated split points (allowmaxlength=true), "
        "or chain vs longer chain (allowmaxlength=false, the documented 'initial path' marker loss): data file, restart file (minus "
        "restarted_from) and every live path's order/energy/traj tables and frame files compared byte for byte (file names, which embed pid and "
        "a call counter, are replaced by their order of appearance); repeated runs; restart of a finished run. (b) 2..5 workers: kills with "
        "jobs in flight and generated completion orders, incl. kill after an earlier restart: the jobs in flight as of the last completed step "
        "must be the first jobs issued by the restart; same (seed, schedule, kill) twice gives identical files. "
        "(c) TurtleMD double well (rounded order parameter; sh/wf; cap unset / 0.0 / other; delete_old): straight run vs. chains. (d) the same input twice "
        "through infretis.bin.internalrun in fresh interpreters with different PYTHONHASHSEED (one- and two-engine layouts). (e) exhaustive small systems "
        "(checks/enumsys.py): kill + in-memory restart in every reachable state; record = jobs in flight, re-issued first and in order, closure. "
        "Non-trivial: (a) split strictly inside, seed != 0, >= 2 accepted moves; (b) >= 1 restart with recorded in-flight jobs; (c) seed != 0 and >= 2 accepted "
        "moves; (d) every pair of completed runs; (e) every explored state. Distinct = digest."
    )
    ctx.assumptions = ["order parameter values are integers or half-integers (translated copies of the lattice), exact at the six decimals of order.txt",
                       "TurtleMD part: the repository's double-well example with an order parameter rounded to six decimals (the statement's scope condition), allowmaxlength=true"]
    run_property(ctx, "split", split_cases, body_split, ctx.pick(300, 4000), shards=ctx.procs, shrink=not ctx.quick)
    run_property(ctx, "kill", kill_cases, body_kill, ctx.pick(400, 5000), shards=ctx.procs, shrink=not ctx.quick)
    run_property(ctx, "turtlemd", tmd_cases, body_tmd, ctx.pick(48, 480), shards=ctx.procs, shrink=not ctx.quick)
    run_property(ctx, "fresh", fresh_cases, body_fresh, ctx.pick(32, 320), shards=ctx.procs, shrink=False)
    # exhaustive small systems: a kill + restart in every reachable state (restart record = jobs in flight; re-issued first, in order)
    from checks import enumsys

    enumsys.run_enum(ctx, {"C03": 1}, ("C06:",), ("pick_lock", "load_paths", "prep"))


def replay(ctx, data):
    strat, body = PARTS[data["part"]]
    try:
        body(ctx, data["case"])
    except Violation as v:
        ctx.violation(v.signature, v.message, data)
