"""C13 - on-the-fly trajectory readers never return a torn frame."""

import os

import numpy as np
from hypothesis import strategies as st

from vlib import isolate
from vlib.cli import Violation, digest
from vlib.hyp import run_property
from vlib.oracles import trr as trrref

NUM = st.floats(-999.0, 999.0, allow_nan=False, allow_infinity=False).map(lambda x: round(x, 7)) | st.sampled_from([0.0, -0.0, 1.0, -1.5, 123.4567891, 1e-5, -2.5e-7, 99.9999999])


# ------------------------------------------------------------------ text formats
def fmt_num(x, style):
    if style == "g":
        return f"{x:.10g}"
    if style == "f":
        return f"{x:.8f}"
    return f"{x:.9e}"


def lammps_file(c):
    """-> (bytes, frames[(natoms,6) arrays], boxes, frame_end_offsets, data_end_offsets)"""
    out, frames, boxes, ends, dends = "", [], [], [], []
    n = c["natoms"]
    for k, fr in enumerate(c["frames"]):
        s = f"ITEM: TIMESTEP\n{k * 10}\nITEM: NUMBER OF ATOMS\n{n}\nITEM: BOX BOUNDS pp pp pp\n"
        bx = np.zeros((3, 3))
        for d in range(3):
            lo, hi = fr["box"][d]
            cols = [fmt_num(lo, c["style"]), fmt_num(hi, c["style"])]
            if c["boxcols"] == 3:
                cols.append(fmt_num(0.0, c["style"]))
            s += " ".join(cols) + "\n"
            bx[d, 0], bx[d, 1] = float(cols[0]), float(cols[1])
        s += "ITEM: ATOMS id type x y z vx vy vz id\n"
        arr = np.zeros((n, 6))
        for pos_in_file, aid in enumerate(fr["order"][:n]):
            vals = [fmt_num(v, c["style"]) for v in fr["atoms"][aid]]
            s += f"{aid + 1} 1 " + " ".join(vals) + f" {aid + 1}\n"
            arr[aid] = [float(v) for v in vals]
        out += s
        frames.append(arr)
        boxes.append(bx)
        ends.append(len(out))
        dends.append(len(out) - 1)
    return out.encode(), frames, boxes, ends, dends


def xyz_file(c):
    out, frames, ends, dends = "", [], [], []
    n = c["natoms"]
    for k, fr in enumerate(c["frames"]):
        s = (f"{n:>8d}\n" if c["padded"] else f"{n}\n")
        s += f" i = {k:8d}, time = {k * 0.5:12.3f}, E = {-1.25 * k:20.10f}\n"
        arr = np.zeros((n, 3))
        for a in range(n):
            vals = [f"{v:20.10f}" for v in fr["atoms"][a][:3]]
            s += f"{'H':>3s} " + "".join(vals) + "\n"
            arr[a] = [float(v) for v in vals]
        out += s
        frames.append(arr)
        ends.append(len(out))
        dends.append(len(out) - 1)
    return out.encode(), frames, ends, dends


@st.composite
def text_cases(draw, kind):
    n = draw(st.sampled_from([2, 3, 5, 10, 11, 12]) if kind == "lammps" else st.sampled_from([1, 2, 3, 9, 10, 12]))
    nf = draw(st.integers(1, 3 if n >= 9 else 4))
    frames = []
    for _ in range(nf):
        atoms = [[draw(NUM) for _ in range(6)] for _ in range(n)]
        order = draw(st.permutations(list(range(n))))
        box = [[-draw(st.floats(0, 5).map(lambda x: round(x, 3))), draw(st.floats(6, 20).map(lambda x: round(x, 3)))] for _ in range(3)]
        frames.append({"atoms": atoms, "order": list(order), "box": box})
    c = {"kind": kind, "natoms": n, "frames": frames, "style": draw(st.sampled_from(["g", "f", "e"])), "boxcols": draw(st.sampled_from([2, 3])),
         "padded": draw(st.booleans()),
         # multi-cut schedule: fractions of the file length + idle polls
         "cuts": draw(st.lists(st.floats(0, 1), min_size=0, max_size=5)), "adjacent": draw(st.booleans()), "idle": draw(st.integers(0, 2)),
         "mode": draw(st.sampled_from(["all-single-cuts", "multi"]))}
    return c


def lammps_cases():
    return text_cases("lammps")


def xyz_cases():
    return text_cases("xyz")


def drive_text(kind, data, schedule, path):
    """Publish data[:c] for each c in schedule (increasing), polling after each; then twice more.
    Returns (list of frames [+ boxes]) delivered per poll and any exception."""
    from infretis.classes.engines.engineparts import ReadAndProcessOnTheFly, lammpstrj_reader, xyz_reader

    reader = ReadAndProcessOnTheFly(path, lammpstrj_reader if kind == "lammps" else xyz_reader)
    if os.path.exists(path):
        os.remove(path)
    got, gotbox, per_poll = [], [], []
    written = 0
    steps = list(schedule) + [len(data), None, None]
    for c in steps:
        if c is not None and c > written:
            with open(path, "ab") as fh:
                fh.write(data[written:c])
            written = c
        try:
            res = reader.read_and_process_content()
        except Exception as exc:  # noqa: BLE001
            return got, gotbox, per_poll, (type(exc).__name__, str(exc), written)
        if kind == "lammps":
            tr, bx = res if isinstance(res, tuple) else (res, [])
            got += list(tr)
            gotbox += list(bx)
        else:
            got += list(res)
        per_poll.append((written, len(got)))
    return got, gotbox, per_poll, None


def check_text(rec, c, kind, data, frames, boxes, ends, dends, schedule, path, tag):
    got, gotbox, per_poll, exc = drive_text(kind, data, schedule, path)
    info = f"{kind} natoms={c['natoms']} frames={len(frames)} style={c['style']} padded={c['padded']} schedule={list(schedule)} file_len={len(data)}"
    if exc:
        rec.check(False, f"{kind}:reader-raises-on-partial-frame:{exc[0]}", f"{exc[1]} at prefix {exc[2]}; {info}")
        return
    # cumulative delivery is a prefix of the written frames with exactly the written values
    for written, ngot in per_poll:
        fprime = sum(1 for e in dends if e <= written)
        if ngot > fprime:
            rec.check(False, f"{kind}:frame-returned-before-it-was-complete", f"{ngot} frames after {written} bytes, only {fprime} complete; {info}")
            return
    for k, g in enumerate(got):
        if k >= len(frames):
            rec.check(False, f"{kind}:more-frames-than-written", info)
            return
        w = frames[k] if kind == "lammps" else frames[k]
        ok = g.shape == w.shape and np.array_equal(g, w)
        if not ok:
            rec.check(False, f"{kind}:returned-frame-differs-from-written(torn-or-duplicated)", f"frame {k}: got {np.asarray(g).tolist()} want {w.tolist()}; {info}")
            return
    if kind == "lammps":
        for k, b in enumerate(gotbox[: len(boxes)]):
            if not np.array_equal(np.asarray(b)[:, :2], boxes[k][:, :2]):
                rec.check(False, "lammps:returned-box-differs-from-written", f"frame {k}: {np.asarray(b).tolist()} vs {boxes[k].tolist()}; {info}")
                return
        rec.check(len(gotbox) == len(got), "lammps:boxes-and-frames-out-of-step", info)
    rec.check(len(got) == len(frames), f"{kind}:frames-missing-two-polls-after-writer-finished", f"{len(got)} of {len(frames)}; {info}")


def cut_class(c, ends, text):
    if c in ends or c == 0:
        return "at-frame-boundary"
    prev = text[c - 1 : c]
    nxt = text[c : c + 1]
    if (c + 1) in ends:
        return "before-final-newline"
    if prev.strip() and nxt.strip():
        return "inside-a-token"
    return "between-tokens"


def body_text(rec, c):
    kind = c["kind"]
    if kind == "lammps":
        data, frames, boxes, ends, dends = lammps_file(c)
    else:
        data, frames, ends, dends = xyz_file(c)
        boxes = None
    d = isolate.mkscratch("rd_")
    path = os.path.join(d, "traj.txt")
    text = data.decode()
    fd = digest([kind, text])
    try:
        if c["mode"] == "all-single-cuts":
            for cut in range(0, len(data) + 1):
                cls = cut_class(cut, ends, text)
                rec.case(key=f"{fd}:{cut}", nontrivial=cls != "at-frame-boundary", classes=[kind, f"{kind}:single-cut", f"{kind}:cut-{cls}"],
                         sample={"kind": kind, "file": text[:400], "cut": cut, "class": cls} if cls == "inside-a-token" and len(rec.samples) < 2 else None)
                check_text(rec, c, kind, data, frames, boxes, ends, dends, [cut], path, "single")
        else:
            for shift in range(0, 24):  # the generated multi-cut pattern, slid over the file byte by byte
                offs = sorted({min(len(data), int(f * len(data)) + shift) for f in c["cuts"]})
                if c["adjacent"] and offs:
                    offs = sorted(set(offs + [min(len(data), o + 1) for o in offs]))
                sched = []
                for o in offs:
                    sched += [o] * (1 + c["idle"])
                inside = any(cut_class(o, ends, text) != "at-frame-boundary" for o in offs)
                rec.case(key=f"{fd}:{sched}", nontrivial=inside, classes=[kind, f"{kind}:multi-cut", f"{kind}:multi-cut:{min(len(offs),4)}-cuts"])
                check_text(rec, c, kind, data, frames, boxes, ends, dends, sched, path, "multi")
    finally:
        isolate.rmscratch(d)


# -------------------------------------------------------------------------- TRR
@st.composite
def trr_cases(draw):
    n = draw(st.sampled_from([1, 3, 8, 20, 40, 80]))
    nf = draw(st.integers(1, 5))
    frames = []
    for k in range(nf):
        vals = lambda m: [draw(NUM) for _ in range(3)] * m  # noqa: E731
        frames.append({"x": [draw(NUM) for _ in range(3)] + [0.001 * (i + k) for i in range(3 * n - 3)],
                       "v": [draw(NUM) for _ in range(3)] + [-0.002 * (i + k) for i in range(3 * n - 3)],
                       "box": [draw(st.floats(1, 20).map(lambda x: round(x, 4))) if i in (0, 4, 8) else 0.0 for i in range(9)]})
    return {"kind": "trr", "natoms": n, "frames": frames, "endian": draw(st.sampled_from([">", "<"])), "double": draw(st.booleans()),
            "with_v": draw(st.booleans()), "with_f": draw(st.sampled_from([False, False, True])), "with_box": draw(st.sampled_from([True, True, False])),
            "cuts": draw(st.lists(st.floats(0, 1), min_size=0, max_size=6)), "adjacent": draw(st.booleans()),
            "mode": draw(st.sampled_from(["single-cuts", "multi"])), "stride": draw(st.sampled_from([1, 3, 7])), "exit_with_last": draw(st.booleans()), "exit_in_poll": draw(st.sampled_from([None, None, 1, 2, 3, 4, 6])),
            # velocities / forces written at other intervals than positions: frames of different size (None: all frames alike)
            "v_on": draw(st.one_of(st.none(), st.lists(st.booleans(), min_size=nf, max_size=nf))),
            "f_on": draw(st.one_of(st.none(), st.none(), st.lists(st.booleans(), min_size=nf, max_size=nf)))}


def trr_file(c):
    data, want, ends, hdr_ends = b"", [], [], []
    n = c["natoms"]
    for k, fr in enumerate(c["frames"]):
        x = fr["x"]
        v = fr["v"] if (c["v_on"][k] if c.get("v_on") else c["with_v"]) else None
        f = [0.5 * a for a in fr["x"]] if (c["f_on"][k] if c.get("f_on") else c["with_f"]) else None
        box = fr["box"] if c["with_box"] else None
        raw, hl = trrref.encode_frame(n, k * 10, k * 0.002, 0.0, box=box, x=x, v=v, f=f, endian=c["endian"], double=c["double"])
        hdr_ends.append(len(data) + hl)
        data += raw
        ends.append(len(data))
        w = {"x": np.array(trrref.as_stored(x, c["endian"], c["double"])).reshape(n, 3)}
        if v is not None:
            w["v"] = np.array(trrref.as_stored(v, c["endian"], c["double"])).reshape(n, 3)
        if f is not None:
            w["f"] = np.array(trrref.as_stored(f, c["endian"], c["double"])).reshape(n, 3)
        if box is not None:
            w["box"] = np.array(trrref.as_stored(box, c["endian"], c["double"])).reshape(3, 3)
        want.append(w)
    return data, want, ends, hdr_ends


class StuckReader(Exception):
    pass


def drive_trr(data, schedule, path, exit_with_last=False, exit_in_poll=None, ends=()):
    """Drive GromacsRunner.get_gromacs_frames with a stub process; each sleep() publishes the next chunk.
    exit_with_last: the writer has exited (poll() == 0) by the time its last chunk is visible, instead of one poll later."""
    from infretis.classes.engines import gromacs as g

    class Proc:
        returncode = None
        polls = 0

        def poll(self):
            # exit_in_poll = n: by the time of the n-th poll() the writer has written everything that was left and has exited
            # (both happen between two looks of the reader - e.g. between its look at the file size and its look at the process)
            self.polls += 1
            if exit_in_poll and self.polls >= exit_in_poll and self.returncode is None:
                if state["written"] < len(data):
                    with open(path, "ab") as fh:
                        fh.write(data[state["written"]:])
                    state["written"] = len(data)
                state["i"] = len(steps)
                self.returncode = 0
            return self.returncode

    # with exit_in_poll the tail of the file is not published by a sleep but inside that poll() call
    steps = [s for s in schedule] + ([] if exit_in_poll else [len(data)])
    state = {"written": 0, "i": 0, "sleeps": 0}
    with open(path, "wb"):
        pass

    def publish():
        if state["i"] < len(steps):
            c = steps[state["i"]]
            state["i"] += 1
            if c > state["written"]:
                with open(path, "ab") as fh:
                    fh.write(data[state["written"] : c])
                state["written"] = c
            if exit_with_last and state["i"] == len(steps) and not exit_in_poll:
                proc.returncode = 0
        elif not exit_in_poll:
            proc.returncode = 0
        elif state["written"] not in ends and state["written"] > 0:
            # the writer is alive and in the middle of a frame: it completes that frame (the reader may be waiting for the
            # rest of it without looking at the process); the tail after it and the exit come with the n-th poll()
            c = min([e for e in ends if e > state["written"]] or [len(data)])
            with open(path, "ab") as fh:
                fh.write(data[state["written"] : c])
            state["written"] = c

    def fake_sleep(_t):
        state["sleeps"] += 1
        if state["sleeps"] > 4 * len(steps) + 50:
            raise StuckReader()
        publish()

    proc = Proc()
    runner = g.GromacsRunner(["true"], path, path, os.path.dirname(path))
    runner.running = proc
    publish()  # first chunk visible before the reader starts
    runner.fileh = open(path, "rb")
    runner.ino = os.fstat(runner.fileh.fileno()).st_ino
    runner.stop_read = False
    runner.bytes_read = 0
    old_sleep = g.sleep
    g.sleep = fake_sleep
    got, live, exc = [], 0, None
    try:
        for frame in runner.get_gromacs_frames():
            got.append((frame, state["written"]))
            if proc.returncode is None:
                live += 1
    except StuckReader:
        exc = ("StuckReader", "no progress", state["written"])
    except Exception as e:  # noqa: BLE001
        exc = (type(e).__name__, str(e), state["written"])
    finally:
        g.sleep = old_sleep
        try:
            runner.fileh.close()
        except Exception:  # noqa: BLE001
            pass
        runner.running = None
        runner.stdout = runner.stderr = None
    return got, live, exc


def body_trr(rec, c):
    data, want, ends, hdr_ends = trr_file(c)
    d = isolate.mkscratch("trr_")
    path = os.path.join(d, "traj.trr")
    fd = digest([c["natoms"], c["endian"], c["double"], c["with_v"], c["with_f"], c["with_box"], len(data), [f["x"][:3] for f in c["frames"]]])
    try:
        if c["mode"] == "single-cuts":
            scheds = [[cut] for cut in range(1, len(data), c["stride"])]
            if c.get("exit_in_poll"):  # the reader is caught up at a frame boundary when the writer writes the rest and exits
                scheds += [[e] for e in ends[:-1] if [e] not in scheds] + [ends[:k] for k in range(2, len(ends))]
        else:
            scheds = []
            for shift in range(0, 24):
                offs = sorted({min(len(data), max(1, int(f * len(data)) + shift)) for f in c["cuts"]})
                if c["adjacent"] and offs:
                    offs = sorted(set(offs + [min(len(data), o + 1) for o in offs]))
                scheds.append(offs)
        for sched in scheds:
            got, live, exc = drive_trr(data, sched, path, exit_with_last=c.get("exit_with_last", False), exit_in_poll=c.get("exit_in_poll"), ends=ends)
            inside = any(o not in ends for o in sched)
            in_hdr = any(any(e - 100 < o < h for e, h in zip([0] + ends, hdr_ends)) for o in sched)
            classes = ["trr", "trr:" + c["mode"], "trr:big-endian" if c["endian"] == ">" else "trr:little-endian", "trr:double" if c["double"] else "trr:single"]
            if live:
                classes.append("trr:frame-delivered-while-writer-running")
            if c.get("exit_with_last"):
                classes.append("trr:writer-exits-with-its-last-flush")
            if c.get("exit_in_poll"):
                classes.append("trr:writer-finishes-and-exits-between-two-looks-of-the-reader")
            if (c.get("v_on") and len(set(c["v_on"])) > 1) or (c.get("f_on") and len(set(c["f_on"])) > 1):
                classes.append("trr:frames-of-different-size")
            if in_hdr:
                classes.append("trr:cut-inside-a-header")
            rec.case(key=f"{fd}:{sched}", nontrivial=inside and (live > 0 or len(data) < 1200), classes=classes,
                     sample={"natoms": c["natoms"], "frames": len(want), "endian": c["endian"], "double": c["double"], "bytes": len(data), "schedule": sched, "delivered_live": live}
                     if live and len(rec.samples) < 2 else None)
            info = f"trr natoms={c['natoms']} frames={len(want)} endian={c['endian']} double={c['double']} v={c['with_v']} f={c['with_f']} box={c['with_box']} schedule={sched} file_len={len(data)} frame_ends={ends}"
            if exc:
                rec.check(False, f"trr:reader-raises-on-partial-frame:{exc[0]}", f"{exc[1]} at prefix {exc[2]}; {info}")
                continue
            for k, (fr, written) in enumerate(got):
                if k >= len(want):
                    rec.check(False, "trr:more-frames-than-written", info)
                    break
                if ends[k] > written:
                    rec.check(False, "trr:frame-returned-before-it-was-complete", f"frame {k} (ends at {ends[k]}) returned with {written} bytes on disk; {info}")
                    break
                w = want[k]
                same = set(fr.keys()) == set(w.keys()) and all(np.array_equal(np.asarray(fr[key]), w[key]) for key in w)
                if not same:
                    rec.check(False, "trr:returned-frame-differs-from-written", f"frame {k}: keys {sorted(fr.keys())} vs {sorted(w.keys())}; x got {np.asarray(fr.get('x')).ravel()[:4]} want {w['x'].ravel()[:4]}; {info}")
                    break
            else:
                rec.check(len(got) == len(want), "trr:frames-missing-after-writer-finished", f"{len(got)} of {len(want)}; {info}")
    finally:
        isolate.rmscratch(d)


PARTS = {"lammps": (lammps_cases, body_text), "xyz": (xyz_cases, body_text), "trr": (trr_cases, body_trr)}


# ------------------------------------------------------------------ coverage-guided part (atheris / libFuzzer)
def run_fuzz(ctx, runs):
    """Spawn vlib/fuzz_c13.py: byte strings -> (trajectory, write schedule) with the same oracle inside the target."""
    import json
    import subprocess
    import sys

    try:
        import atheris  # noqa: F401
    except Exception as exc:  # noqa: BLE001
        ctx.note("fuzz", [f"atheris not importable ({type(exc).__name__}); coverage-guided part skipped"])
        return
    work = isolate.mkscratch("fz_")
    try:
        target = os.path.join(os.path.dirname(os.path.dirname(os.path.abspath(__file__))), "vlib", "fuzz_c13.py")
        cmd = [sys.executable, target, work, f"-runs={runs}", f"-seed={ctx.seed % 2**31 or 1}", "-max_len=192", "-len_control=0", f"-artifact_prefix={work}/crash-", "-timeout=120"]
        try:
            r = subprocess.run(cmd, capture_output=True, text=True, timeout=3600)
        except subprocess.TimeoutExpired:
            ctx.note("fuzz", ["time budget hit: inconclusive"])
            return
        stats = {}
        if os.path.exists(os.path.join(work, "stats.json")):
            stats = json.load(open(os.path.join(work, "stats.json")))
        cov = [ln for ln in r.stderr.splitlines() if " cov: " in ln]
        ctx.case(key="fuzz-campaign", nontrivial=False, classes=["fuzz:campaigns"], n=max(1, int(stats.get("execs", 0))),
                 sample={"part": "coverage-guided fuzzing (atheris)", "executions": stats.get("execs"), "with_a_cut_inside_a_frame": stats.get("nontrivial"), "per_format": stats.get("kinds"),
                         "corpus_files": len(os.listdir(os.path.join(work, "corpus"))), "libfuzzer_last_line": cov[-1].strip()[:160] if cov else None})
        ctx.cls("fuzz:executions", stats.get("execs", 0))
        ctx.cls("fuzz:executions-with-a-cut-inside-a-frame", stats.get("nontrivial", 0))
        for k, v in stats.get("kinds", {}).items():
            ctx.cls(f"fuzz:{k}", v)
        ctx.note("fuzz", [f"execs={stats.get('execs')} nontrivial={stats.get('nontrivial')} corpus={len(os.listdir(os.path.join(work, 'corpus')))} last: {cov[-1].strip()[:120] if cov else ''}"])
        vf = os.path.join(work, "violation.json")
        if os.path.exists(vf):
            v = json.load(open(vf))
            ctx.violation("fuzz:" + v["signature"], v["message"], {"part": "fuzz", "hex": v["hex"]})
        elif r.returncode != 0:
            ctx.error(f"fuzz target ended with exit code {r.returncode}: {r.stderr[-600:]}")
    finally:
        isolate.rmscratch(work)


def replay_fuzz(ctx, data):
    import subprocess
    import sys

    work = isolate.mkscratch("fz_")
    try:
        target = os.path.join(os.path.dirname(os.path.dirname(os.path.abspath(__file__))), "vlib", "fuzz_c13.py")
        os.makedirs(os.path.join(work, "corpus"), exist_ok=True)
        inp = os.path.join(work, "input.bin")
        with open(inp, "wb") as fh:
            fh.write(bytes.fromhex(data["hex"]))
        r = subprocess.run([sys.executable, target, work, inp], capture_output=True, text=True, timeout=600)  # libFuzzer: a file argument = run that input once
        vf = os.path.join(work, "violation.json")
        if os.path.exists(vf):
            import json

            v = json.load(open(vf))
            ctx.violation("fuzz:" + v["signature"], v["message"], data)
    finally:
        isolate.rmscratch(work)


def run(ctx):
    ctx.rule = (
        "Generated trajectories: LAMMPS dumps (2-6 atoms, 1-4 frames, shuffled ids, %g/%f/%e numbers, 2- or 3-column box lines), CP2K xyz "
        "(padded/unpadded count line, comment line, %20.10f columns), TRR (1-80 atoms, 1-5 frames, both byte orders and precisions, with/without "
        "v, f, box; written by an independent struct encoder). Write schedules: every single byte offset c (publish bytes[:c], poll, publish "
        "all, poll twice) for the text formats, every stride-th offset for TRR, plus generated multi-cut schedules (adjacent offsets, idle "
        "polls). Text readers are driven through ReadAndProcessOnTheFly.read_and_process_content per poll; the TRR reader through "
        "GromacsRunner.get_gromacs_frames with a stub process whose poll() and the module's sleep are owned by the harness. Oracle: no "
        "exception; cumulative frames are a prefix of the written frames with exactly the written values, never more than the frames whose "
        "data bytes are on disk; all frames within two polls after the writer finished. Non-trivial: a cut that is not at a frame boundary "
        "(TRR: additionally a frame delivered while the writer was still running, or a file below the 1000-byte header wait). Distinct = (file, schedule). "
        "Coverage-guided part: an atheris/libFuzzer campaign (quick 4000, thorough 150000 executions, -seed from VERIF_SEED, empty corpus, coverage of "
        "infretis' reader modules) whose target decodes the bytes into (format, trajectory, up to 8 cuts with idle polls) and applies the same oracle; "
        "its executions are counted in `evaluations` and classified under fuzz:*, but not in distinct_nontrivial."
    )
    ctx.assumptions = ["the final file is complete (the writer exits normally); a per-poll lower bound is not demanded (callers tolerate a lagging poll)"]
    run_property(ctx, "lammps", lammps_cases, body_text, ctx.pick(48, 480), shards=ctx.procs)
    run_property(ctx, "xyz", xyz_cases, body_text, ctx.pick(48, 480), shards=ctx.procs)
    run_property(ctx, "trr", trr_cases, body_trr, ctx.pick(64, 640), shards=ctx.procs)
    if not getattr(ctx, "part", None) or ctx.part == "fuzz":
        run_fuzz(ctx, ctx.pick(4000, 150000))


def replay(ctx, data):
    if data["part"] == "fuzz":
        return replay_fuzz(ctx, data)
    strat, body = PARTS[data["part"]]
    try:
        body(ctx, data["case"])
    except Violation as v:
        ctx.violation(v.signature, v.message, data)
