"""C16 - velocity regeneration changes only velocities, at the right temperature."""

import math
import os

import numpy as np
from hypothesis import strategies as st

from vlib import enginekit as ek
from vlib import isolate
from vlib.cli import Rec, Violation
from vlib.hyp import derive_seed, pmap, run_property

ENGINES = ["cp2k", "lammps", "gromacs", "ase", "turtlemd"]
EL = list(ek.ELEMENTS)


# ------------------------------------------------------------ independent readers
def read_lammpstrj(path):
    lines = open(path).read().splitlines()
    n = int(lines[3])
    box = [[float(x) for x in lines[5 + d].split()] for d in range(3)]  # lo hi [tilt]
    rows = {}
    for ln in lines[9 : 9 + n]:
        sp = ln.split()
        rows[int(sp[0])] = (int(sp[1]), [float(x) for x in sp[2:5]], [float(x) for x in sp[5:8]])
    ids = sorted(rows)
    return {"ids": ids, "types": [rows[i][0] for i in ids], "pos": np.array([rows[i][1] for i in ids]), "vel": np.array([rows[i][2] for i in ids]), "box": np.array(box), "n": n}


def read_xyz(path):
    lines = open(path).read().splitlines()
    n = int(lines[0].split()[0])
    hdr = lines[1]
    box = None
    if "box:" in hdr.lower():
        box = [float(x) for x in hdr.lower().split("box:")[1].split()]
    names, pos, vel = [], [], []
    for ln in lines[2 : 2 + n]:
        sp = ln.split()
        names.append(sp[0])
        pos.append([float(x) for x in sp[1:4]])
        vel.append([float(x) for x in sp[4:7]] if len(sp) >= 7 else [0.0] * 3)
    return {"names": names, "pos": np.array(pos), "vel": np.array(vel), "box": box, "n": n}


def read_g96(path):
    sec, out = None, {"POSITION": [], "VELOCITY": [], "BOX": [], "TITLE": []}
    for ln in open(path).read().splitlines():
        s = ln.strip()
        if s in out:
            sec = s
            continue
        if s == "END":
            sec = None
            continue
        if sec:
            out[sec].append(ln)
    f = lambda ln: [float(ln[24 + 15 * k : 39 + 15 * k]) for k in range(3)]  # noqa: E731
    return {"labels": [ln[:24] for ln in out["POSITION"]], "pos": np.array([f(ln) for ln in out["POSITION"]]),
            "vel": np.array([f(ln) for ln in out["VELOCITY"]]) if out["VELOCITY"] else None,
            "box": [float(x) for x in out["BOX"][0].split()] if out["BOX"] else None, "title": out["TITLE"], "n": len(out["POSITION"])}


def read_ase(path):
    from ase.io import read

    at = read(path)
    return {"names": list(at.get_chemical_symbols()), "pos": at.positions.copy(), "vel": at.get_velocities().copy(), "box": at.cell.diagonal().copy(),
            "masses": at.get_masses().copy(), "n": len(at)}


# ------------------------------------------------------------------ setups
def setup(engine, root, masses_idx, pos, vel, temperature, int_masses=False, ase_integ=None, tmd_dim=3, triclinic=False):
    """Build the engine and a source frame. Returns (eng, source file, masses[amu or reduced], reader, extra)."""
    n = len(pos)
    els = [EL[i % len(EL)] for i in masses_idx]
    amu = np.array([ek.ELEMENTS[e] for e in els])
    src_dir = os.path.join(root, "src")
    os.makedirs(src_dir, exist_ok=True)
    if engine == "lammps":
        types_sorted = sorted(set(els), key=els.index)
        types = [types_sorted.index(e) + 1 for e in els]
        eng = ek.make_lammps(root, [ek.ELEMENTS[e] for e in types_sorted], types, pos, temperature=temperature)
        src = os.path.join(src_dir, "frame.lammpstrj")
        order = list(range(n))[::-1]
        with open(src, "w") as fh:
            fh.write(ek.lammps_frame_text(types, pos, vel, [(0.0, 30.0, 1.5), (0.0, 30.0, -2.0), (0.0, 31.0, 0.5)] if triclinic else [(0.0, 30.0)] * 3, order=order, trailing_id=True))
        return eng, src, amu, read_lammpstrj, {"types": types}
    if engine == "cp2k":
        eng = ek.make_cp2k(root, els, pos, temperature=temperature)
        src = os.path.join(src_dir, "frame.xyz")
        from infretis.classes.engines.engineparts import write_xyz_trajectory

        write_xyz_trajectory(src, np.array(pos), np.array(vel), els, np.array([30.0, 30.0, 30.0]), append=False)
        return eng, src, amu * ek.AMU_IN_ME, read_xyz, {"names": els}
    if engine == "gromacs":
        if int_masses:  # masses given as integers in the settings (e.g. masses = [12, 16])
            amu = np.array([int(round(m)) for m in amu])
            eng = ek.make_gromacs(root, [int(m) for m in amu], pos, temperature=temperature)
            amu = amu.astype(float)
        else:
            eng = ek.make_gromacs(root, [float(m) for m in amu], pos, temperature=temperature)
        src = os.path.join(src_dir, "frame.g96")
        with open(src, "w") as fh:
            fh.write(ek.g96_text(pos, vel, [3.0, 3.0, 3.0], names=els))
        return eng, src, amu, read_g96, {"names": els}
    if engine == "ase":
        integ = ase_integ or "velocityverlet"  # "velocityverlet" | "langevin" | "langevin-fixcm"
        eng = ek.make_ase(root, temperature=temperature, integrator=integ.split("-")[0], fixcm=integ.endswith("fixcm"))
        src = os.path.join(src_dir, "frame.traj")
        ek.ase_frame(src, els, amu, pos, vel)
        return eng, src, amu, read_ase, {"names": els}
    if engine == "turtlemd":
        red = np.array([1.0 + (i % 4) for i in masses_idx], dtype=float)
        eng = ek.make_turtlemd(root, [int(m) for m in red] if int_masses else [float(m) for m in red], pos, temperature=temperature, boltzmann=1.0, dim=tmd_dim)
        src = os.path.join(src_dir, "frame.xyz")
        from infretis.classes.engines.engineparts import write_xyz_trajectory

        write_xyz_trajectory(src, np.array(pos), np.array(vel), ["Ar"] * n, np.array([50.0, 50.0, 50.0]), append=False)
        return eng, src, red, read_xyz, {"names": ["Ar"] * n}
    raise ValueError(engine)


def kb_of(engine):
    return 1.0 if engine == "turtlemd" else ek.KB[engine]


def kinetic(engine, masses, vel):
    """0.5 sum m v^2 in the engine's own convention (what kin_new is documented to be)."""
    return 0.5 * float(np.sum(masses[:, None] * vel * vel))


# --------------------------------------------------------------- per-call properties
@st.composite
def call_cases(draw):
    engine = draw(st.sampled_from(ENGINES))
    n = draw(st.integers(2 if engine == "lammps" else 1, 6))
    fl = st.floats(0.5, 25.0).map(lambda x: round(x, 6))
    return {
        "engine": engine, "n": n,
        "masses_idx": [draw(st.integers(0, 4)) for _ in range(n)],
        "pos": [[draw(fl) for _ in range(3)] for _ in range(n)],
        "vel": [[draw(st.sampled_from([0.0, 0.0, 0.001, -0.002, 0.01])) for _ in range(3)] for _ in range(n)] if draw(st.booleans()) else [[0.0] * 3 for _ in range(n)],
        "temperature": draw(st.sampled_from([1.0, 50.0, 300.0, 2000.0])),
        "zero_momentum": draw(st.sampled_from([True, False, None])),
        "seed": draw(st.integers(0, 2**31)),
        "int_masses": draw(st.booleans()),
        "ase_integ": draw(st.sampled_from(["velocityverlet", "langevin", "langevin-fixcm"])),
        # the phase point may carry a kinetic energy from the MD program's own log (other units, other precision)
        "stored_ekin": draw(st.sampled_from([None, None, 7777.25])),
        # TurtleMD systems of lower dimension (1D double well, 2D): the xyz frames still carry three velocity columns
        "tmd_dim": draw(st.sampled_from([3, 3, 1, 2])),
        "triclinic": draw(st.sampled_from([False, False, True])),  # LAMMPS: box rows with tilt factors
        "boundary": draw(st.sampled_from([True, True, True, False])),  # the stream crossed the process boundary (as in a run) / a freshly built one
    }


def job_stream(seed, boundary=True):
    """The engine stream as a job carries it: a spawned child that reached the worker through pickling (numpy keeps the
    state of a pickled generator, not its seed sequence)."""
    g = np.random.default_rng(seed)
    if boundary:
        import pickle

        g = pickle.loads(pickle.dumps(g.spawn(2)[1]))
    return g


def body_call(rec, c):
    engine = c["engine"]
    root = isolate.mkscratch("vel_")
    try:
        T = c["temperature"] if engine != "turtlemd" else c["temperature"] / 300.0
        eng, src, masses, reader, extra = setup(engine, root, c["masses_idx"], c["pos"], c["vel"], T, c.get("int_masses", False), c.get("ase_integ"), c.get("tmd_dim", 3), c.get("triclinic", False))
        eng.rgen = job_stream(c["seed"], c.get("boundary", True))
        vs = {"zero_momentum": c["zero_momentum"]} if c["zero_momentum"] is not None else {}
        src_bytes = open(src, "rb").read()
        before = reader(src)
        system = ek.system_for(src, 0)
        if c.get("stored_ekin") is not None and engine != "gromacs":
            system.ekin = c["stored_ekin"]
        sys_before = (system.config, system.vel_rev, list(system.order))
        gstate = np.random.get_state()[1][:8].tolist()
        vs_before = dict(vs)
        try:
            dek, kin_new = eng.modify_velocities(system, vs)
        except Exception as exc:  # noqa: BLE001
            raise Violation(f"{engine}:modify_velocities-raises:{type(exc).__name__}", f"{exc!r} case={c}")
        out = reader(system.config[0])
        zm_default = {"cp2k": True, "lammps": False, "gromacs": False, "ase": False, "turtlemd": False}[engine]
        zm = c["zero_momentum"] if c["zero_momentum"] is not None else zm_default
        multi = len(set(c["masses_idx"])) >= 2
        rec.case(key=c, nontrivial=bool(multi or zm), classes=["call", "call:" + engine, "call:zero_momentum" if zm else "call:keep_momentum"],
                 sample={"engine": engine, "n": c["n"], "T": T, "zero_momentum": c["zero_momentum"], "kin_new": float(kin_new), "dek": float(dek) if math.isfinite(dek) else str(dek)}
                 if len(rec.samples) < 3 and multi else None)
        info = f"case={c}"
        # the settings it was given are the caller's (one dict is shared by all ensembles and engines of a run): not written to
        rec.check(vs == vs_before, f"{engine}:velocity-settings-dict-modified", f"{vs_before} -> {vs}")
        # the frame it was taken from is not altered
        rec.check(open(src, "rb").read() == src_bytes, f"{engine}:source-frame-file-modified", info)
        rec.check(system.config[0] != src, f"{engine}:velocities-written-into-the-source-frame", info)
        # the phase point now refers to the one configuration that was written
        rec.check(system.config[1] in (0, None), f"{engine}:new-configuration-referenced-with-a-frame-index-it-does-not-have", f"{system.config}")
        # positions, box, identities preserved
        tol = {"lammps": 1e-9, "cp2k": 5e-10, "turtlemd": 5e-10, "gromacs": 5e-10, "ase": 1e-12}[engine]
        rec.check(out["n"] == before["n"], f"{engine}:atom-count-changed", info)
        rec.check(np.allclose(out["pos"], before["pos"], rtol=0, atol=tol), f"{engine}:positions-changed", f"max {np.abs(out['pos']-before['pos']).max()} {info}")
        if engine == "lammps":
            rec.check(out["ids"] == before["ids"] and out["types"] == before["types"], "lammps:ids-or-types-changed", f"{out['ids']} {out['types']} vs {before['ids']} {before['types']}")
            rec.check(out["box"].shape == before["box"].shape and np.allclose(out["box"], before["box"], rtol=0, atol=1e-9), "lammps:box-changed", f"{out['box'].tolist()} vs {before['box'].tolist()}")
        elif engine == "gromacs":
            rec.check(out["labels"] == before["labels"], "gromacs:atom-labels-changed", info)
            rec.check(out["box"] == before["box"], "gromacs:box-changed", f"{out['box']} vs {before['box']}")
        else:
            rec.check(out["names"] == before["names"], f"{engine}:atom-names-changed", f"{out['names']} vs {before['names']}")
            if before["box"] is not None:
                rec.check(out["box"] is not None and np.allclose(out["box"], before["box"], rtol=0, atol=5e-5), f"{engine}:box-changed", f"{out['box']} vs {before['box']}")
        if engine == "ase":
            rec.check(np.allclose(out["masses"], before["masses"]), "ase:masses-changed", info)
        v = out["vel"]
        if not (zm and c["n"] == 1):
            rec.check(bool(np.any(v != 0)), f"{engine}:no-velocities-generated", info)
        # zero total momentum when requested
        p = np.sum(masses[:, None] * v, axis=0)
        scale = float(np.sum(masses[:, None] * np.abs(v))) + 1e-300
        prec = {"lammps": 1e-12, "cp2k": 1e-8, "turtlemd": 1e-8, "gromacs": 1e-7, "ase": 1e-12}[engine]  # file precision of the velocities
        if zm and c["n"] >= 2:
            dvp = {"lammps": 0.0, "cp2k": 5e-10, "turtlemd": 5e-10, "gromacs": 5e-10, "ase": 0.0}[engine]
            rec.check(float(np.abs(p).max()) <= 2 * dvp * float(masses.sum()) + 1e-9 * scale, f"{engine}:total-momentum-not-zero", f"|p|={np.abs(p).max()} scale {scale} {info}")
        if not (zm and c["n"] == 1):
            rec.check(bool(np.all(np.any(v != 0, axis=1))), f"{engine}:atom-left-without-velocity", f"{v.tolist()} masses {masses.tolist()} {info}")
        # kinetic energy bookkeeping
        kin_file = kinetic(engine, masses, v)
        # velocities are written with 9 decimals (xyz, g96): |d kin| <= sum m (|v| dv + dv^2 / 2)
        dv = {"lammps": 0.0, "cp2k": 5e-10, "turtlemd": 5e-10, "gromacs": 5e-10, "ase": 0.0}[engine]
        # (second-order term included: a velocity that rounds to 0.000000000 in the file still carries m dv^2 / 2)
        ktol = 2 * float(np.sum(masses[:, None] * (np.abs(v) * dv + 0.5 * dv * dv))) + 1e-9 * abs(kin_file) + 1e-30
        rec.check(abs(kin_new - kin_file) <= ktol, f"{engine}:kin_new-differs-from-written-velocities", f"kin_new={kin_new!r} from file {kin_file!r} zero_momentum={zm} {info}")
        rec.check(system.ekin == kin_new, f"{engine}:system.ekin-differs-from-kin_new", f"{system.ekin} {kin_new}")
        kin_old = kinetic(engine, masses, before["vel"] if before["vel"] is not None else np.zeros_like(v))
        if engine == "gromacs":
            rec.check(math.isinf(dek), "gromacs:dek-with-unknown-old-kinetic-energy", f"{dek}")  # system.ekin was None
        elif kin_old == 0:
            rec.check(math.isinf(dek), f"{engine}:dek-not-inf-for-zero-old-kinetic-energy", f"{dek}")
        else:
            rec.check(abs(dek - (kin_new - kin_old)) <= 1e-6 * max(abs(kin_new), abs(kin_old)), f"{engine}:dek-inconsistent", f"dek={dek} kin_new-kin_old={kin_new-kin_old}")
        # reproducible from the job stream, and only from it
        rec.check(np.random.get_state()[1][:8].tolist() == gstate, f"{engine}:global-numpy-rng-consumed", info)
        eng.rgen = job_stream(c["seed"], c.get("boundary", True))
        s2 = ek.system_for(src, 0)
        np.random.seed(12345)
        eng.modify_velocities(s2, vs)
        v2 = reader(s2.config[0])["vel"]
        rec.check(np.array_equal(v, v2), f"{engine}:same-stream-different-velocities", f"{v.tolist()} vs {v2.tolist()}")
        eng.rgen = job_stream(c["seed"] + 1, c.get("boundary", True))
        s3 = ek.system_for(src, 0)
        eng.modify_velocities(s3, vs)
        v3 = reader(s3.config[0])["vel"]
        if not (zm and c["n"] == 1):
            rec.check(not np.array_equal(v, v3), f"{engine}:different-stream-same-velocities", info)
    finally:
        isolate.rmscratch(root)


# ------------------------------------------------------------------ statistics
def stat_job(job):
    pid, engine, T, masses_idx, zm, ndraw, seed = job[:7]
    int_masses = job[7] if len(job) > 7 else False
    ase_integ = job[8] if len(job) > 8 else None
    rec = Rec(pid)
    root = isolate.mkscratch("vst_")
    try:
        n = len(masses_idx)
        pos = [[1.0 + 2.0 * i, 2.0, 3.0] for i in range(n)]
        vel = [[0.0] * 3 for _ in range(n)]
        Te = T if engine != "turtlemd" else T / 300.0
        # another engine of the same class, temperature and size but other masses has drawn before in this process
        # (multi-engine set-ups): nothing of it may leak into this engine's distribution
        decoy_idx = [(i + 2) % 5 for i in masses_idx]
        if decoy_idx != list(masses_idx) and engine != "lammps":
            deng, dsrc, _, _, _ = setup(engine, os.path.join(root, "decoy"), decoy_idx, pos, vel, Te, False, ase_integ)
            deng.rgen = np.random.default_rng(seed + 7)
            deng.modify_velocities(ek.system_for(dsrc, 0), {"zero_momentum": zm})
        eng, src, masses, reader, _ = setup(engine, root, masses_idx, pos, vel, Te, int_masses, ase_integ)
        eng.rgen = np.random.default_rng(seed)
        kbt = kb_of(engine) * Te
        zs = []
        for _ in range(ndraw):
            s = ek.system_for(src, 0)
            eng.modify_velocities(s, {"zero_momentum": zm})
            v = reader(s.config[0])["vel"]
            zs.append(v * np.sqrt(masses[:, None] * ek.MV2[engine] / kbt))
        z = np.array(zs)  # (ndraw, n, 3)
        M = masses.sum()
        expect = np.array([1.0 - (m / M if zm else 0.0) for m in masses])  # variance factor per atom
        key = [engine, T, masses_idx, zm] + ([ase_integ] if ase_integ else [])
        nt = len(set(masses_idx)) >= 2 or zm
        worst = 0.0
        for i in range(n):
            zi = z[:, i, :].ravel()
            cnt = len(zi)
            mean_se = math.sqrt(expect[i] / cnt)
            m_z = abs(zi.mean()) / mean_se
            var = (zi**2).mean()
            var_se = expect[i] * math.sqrt(2.0 / cnt)
            v_z = abs(var - expect[i]) / var_se if var_se > 0 else 0.0
            worst = max(worst, m_z, v_z)
            if m_z > 6:
                rec.violation(f"{engine}:velocity-mean-not-zero", f"atom {i}: mean z {zi.mean():.4f} ({m_z:.1f} SE) T={T} masses={masses.tolist()}", {"part": "stat", "job": list(job[1:])})
            if v_z > 6:
                rec.violation(f"{engine}:<m v^2>-differs-from-kT", f"atom {i} (mass {masses[i]:.4f}): <m v^2>/kT = {var:.4f}, expected {expect[i]:.4f} ({v_z:.1f} SE, {cnt} components) T={T} zero_momentum={zm}",
                              {"part": "stat", "job": list(job[1:])})
            # normality: 10 equiprobable bins of the standard normal scaled by sqrt(expect)
            if expect[i] > 0:
                from scipy.stats import norm

                edges = norm.ppf(np.linspace(0, 1, 11)) * math.sqrt(expect[i])
                obs, _ = np.histogram(zi, bins=edges)
                chi2 = float(((obs - cnt / 10.0) ** 2 / (cnt / 10.0)).sum())
                if chi2 > 60:  # 9 dof: P(>60) ~ 1e-9
                    rec.violation(f"{engine}:velocity-components-not-gaussian", f"chi2={chi2:.1f} atom {i}", {"part": "stat", "job": list(job[1:])})
        rec.case(key=key, nontrivial=nt, classes=["stat", "stat:" + engine], n=ndraw,
                 sample={"engine": engine, "T": T, "masses": masses.tolist(), "zero_momentum": zm, "draws": ndraw, "worst_z": round(worst, 2)})
        rec.note("worst_z", [round(worst, 2)])
    except Exception as exc:  # noqa: BLE001
        import traceback

        rec.error(f"stat job {job[1:]} failed: {exc!r}\n{traceback.format_exc()[-1500:]}")
    finally:
        isolate.rmscratch(root)
    return rec


def run(ctx):
    ctx.rule = (
        "Per call (Hypothesis): engine in {CP2K, LAMMPS, GROMACS(infretis_genvel), ASE, TurtleMD} built from a generated input directory "
        "(1-6 atoms, LAMMPS >= 2; element masses; positions; old velocities incl. all-zero; T in 1..2000 K; zero_momentum on/off/default; job "
        "stream seed): modify_velocities must leave the source frame file byte-identical and write a new file whose positions, box and atom "
        "identities (read back with independent readers) equal the source's, with zero total momentum when requested, kin_new = 1/2 sum m v^2 "
        "of the written velocities, dek consistent, identical output for the same stream state, different for another, numpy's global generator "
        "untouched. Statistics: 400 (quick) / 4000 (thorough) draws per (engine, T, mass set, zero_momentum): per atom the mean of "
        "v*sqrt(m/kT) within 6 SE of 0, <m v^2>/kT within 6 SE of 1 (x (1 - m_i/M) with zero_momentum), chi-square on 10 bins; unit "
        "constants are CODATA-style values in the harness, not the engines'. Non-trivial: >= 2 distinct masses or zero_momentum on."
    )
    ctx.assumptions = ["velocities generated by the external GROMACS program itself are outside the property (infretis_genvel=True is used)"]
    run_property(ctx, "call", call_cases, body_call, ctx.pick(400, 4000), shards=ctx.procs)
    # "when requested": the request has to reach the engine. The moves are run with the scripted engine, which records what
    # every velocity regeneration was asked for (C09's wire-fencing machinery; its clause on zero_momentum is this property's)
    from checks import C09

    run_property(ctx, "moves", C09.wf_cases, C09.body_wf, ctx.pick(600, 6000))
    if not getattr(ctx, "part", None) or ctx.part == "stat":
        nd = ctx.pick(400, 4000)
        jobs = []
        for engine in ENGINES:
            for T, midx, zm in [(300.0, [0, 1, 3], False), (300.0, [0, 0, 2, 3], True), (40.0, [4, 2] if engine != "lammps" else [4, 2], False)] + ([(1500.0, [1, 1, 1, 0, 3], True)] if not ctx.quick else []):
                jobs.append((ctx.pid, engine, T, midx, zm, nd, derive_seed(ctx.seed, "C16", engine, T, zm) % 2**31))
            if engine in ("gromacs", "turtlemd"):
                jobs.append((ctx.pid, engine, 300.0, [1, 2, 3], False, nd, derive_seed(ctx.seed, "C16", engine, "int") % 2**31, True))
        # ASE with the Langevin integrator (with and without fixcm): the integrator setting must not change the distribution drawn
        for integ, zm in (("langevin-fixcm", False), ("langevin", True)):
            jobs.append((ctx.pid, "ase", 300.0, [0, 1, 3], zm, nd, derive_seed(ctx.seed, "C16", "ase", integ) % 2**31, False, integ))
        for r in pmap(ctx, stat_job, jobs):
            ctx.merge(r)


def replay(ctx, data):
    if data["part"] == "stat":
        ctx.merge(stat_job(tuple([ctx.pid] + list(data["job"]))))
        return
    try:
        if data["part"] == "moves":
            from checks import C09

            C09.body_wf(ctx, data["case"])
        else:
            body_call(ctx, data["case"])
    except Violation as v:
        ctx.violation(v.signature, v.message, data)
