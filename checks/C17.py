"""C17 - exactly the requested number of moves runs; each result is consumed once."""

import itertools
import os
import time

from hypothesis import strategies as st

from checks import hist
from checks.C06 import diff_keys, snapshot
from vlib import isolate, simdrv
from vlib.cli import Rec, Violation
from vlib.hyp import derive_seed, pmap, run_property


# ------------------------------------------------------------ (a) step-count grid
def grid_cases(quick):
    cases = []
    for n in (3, 4, 5):
        for W in range(1, n):
            steps_list = [W, W + 1, W + 3, W + 6] if quick else list(range(W, W + 7))
            for steps in steps_list:
                ks = sorted({0, 1, W - 1, W, steps // 2, steps - 1, steps} & set(range(0, steps + 1))) if quick else list(range(0, steps + 1))
                for k in ks:
                    for mode in ("clean", "kill"):
                        if mode == "kill" and k == 0:
                            continue
                        if mode == "clean" and k < W:
                            continue  # a run asked for fewer steps than workers is outside the statement
                        exts = [steps, steps + 1, steps + W, steps + W + 2] if quick else list(range(steps, steps + W + 3))
                        for ext in sorted(set(exts)):
                            pols = ["oldest", "newest", "random"] if W > 1 else ["oldest"]
                            for pol in pols:
                                cases.append({"n": n, "W": W, "steps": steps, "k": k, "mode": mode, "ext": ext, "pol": pol})
                        # a restarted lifetime dies before it has consumed its first result, the next one carries on
                        if k >= 1 and (steps == steps_list[-1] or not quick):
                            cases.append({"n": n, "W": W, "steps": steps, "k": k, "mode": mode, "ext": steps + W, "pol": "oldest", "stall": 1})
                            if steps + 1 > k:
                                cases.append({"n": n, "W": W, "steps": steps, "k": k, "mode": mode, "ext": steps + 1, "pol": "newest" if W > 1 else "oldest", "stall": 2})
                        # the restart runs with another worker count (fewer: recorded jobs are surplus; more: an extra fresh pick)
                        if k >= 1 and (mode == "kill" or not quick):
                            for W2 in sorted({W - 1, W - 2, W + 1} & set(range(1, n))):
                                cases.append({"n": n, "W": W, "steps": steps, "k": k, "mode": mode, "ext": steps + W + 2, "pol": "oldest", "W2": W2})
    return cases


def run_grid_case(c, seed=3):
    """First lifetime: run to `steps` (clean) or be killed after k completions / stop cleanly at k;
    second lifetime: restart with target `ext`. Returns list of problems [(sig, msg)]."""
    n, W = c["n"], c["W"]
    moves = ["sh"] + ["wf" if (i + n) % 2 else "sh" for i in range(n - 1)]
    spec = simdrv.lattice_spec(n=n, moves=moves, workers=W, steps=c["steps"], seed=seed + 17 * n + W, maxlength=200,
                               screen=[0, 1, 3][(c["steps"] + c["k"] + c["ext"]) % 3])  # reporting interval: must not matter for what is on disk
    if c["mode"] == "kill":
        seg1 = {"steps": c["steps"], "policy": c["pol"], "policy_seed": seed, "kill_after": c["k"]}
        done1 = c["k"]
    else:  # clean stop at k (k == 0: the first lifetime is asked for 0 steps)
        seg1 = {"steps": c["k"], "policy": c["pol"], "policy_seed": seed}
        done1 = c["k"]
    seg2 = {"steps": c["ext"], "policy": c["pol"], "policy_seed": seed + 1}
    seg3 = {"steps": c["ext"], "policy": c["pol"], "policy_seed": seed + 2}  # restart of the finished run
    if c.get("W2"):
        seg2["workers"] = seg3["workers"] = c["W2"]
    stall = [dict(seg2, kill_after=0, policy_seed=seed + 7 + j) for j in range(c.get("stall", 0))]
    h = simdrv.run_history(spec, [seg1] + stall + [seg2, seg3], {"C17": 1, "C05": 1}, keep=True)
    probs = []
    try:
        res = h["results"]
        for r in res[1 : 1 + len(stall)]:
            if r.get("exc"):
                break
            if r.get("treat_count"):
                probs.append(("C17:harness:stalled-lifetime-completed-moves", str(r.get("treat_count"))))
        else:
            res = [res[0]] + res[1 + len(stall) :]
        for k, r in enumerate(res):
            if r.get("exc"):
                tb = r["exc"][3] if len(r["exc"]) > 3 else ""
                probs.append((f"C17:run-aborted:{r['exc'][1]}:{hist.frames(tb)}", f"lifetime {k}: {r['exc'][2]}"))
                return probs, res
        r1, r2, r3 = res[0], res[1], res[2]
        # the sampler stays in a state from which the run can go on / be restarted: after every step of every lifetime the
        # idle slots hold paths with non-zero weight (a short extension must re-sort like any other run)
        for k, r in enumerate(res):
            for sig, msg in r.get("viol", []):
                if sig.startswith("C05:"):
                    probs.append(("C17:" + sig, f"lifetime {k}: {msg}"))
        if c["mode"] == "clean":
            check_finished(probs, r1, done1, 0, "first-run")
        else:
            if r1.get("treat_count") != min(c["k"], c["steps"]):
                probs.append(("C17:moves-before-kill", f"{r1.get('treat_count')} != {c['k']}"))
        if c["mode"] == "clean" and c["k"] == 0:
            # nothing ran: restart.toml of a 0-step run
            pass
        start2 = done1 if c["mode"] == "clean" else min(c["k"], c["steps"])
        if c["ext"] > start2:
            if r2.get("config_none"):
                probs.append(("C17:restart-with-more-steps-refused", f"cstep {start2} -> {c['ext']}"))
            else:
                check_finished(probs, r2, c["ext"], start2, "extended-run")
                # what the restart found on disk: the step counter of the restart file = the moves completed before the stop / kill
                if r2.get("cstep_start") is not None and r2.get("cstep_start") != start2:
                    probs.append(("C17:restart-file-step-counter-differs-from-completed-moves", f"restart file said {r2.get('cstep_start')}, {start2} moves had completed (screen={spec['screen']})"))
            cfg = simdrv.read_restart(h["rundir"])
            if cfg is None:
                probs.append(("C17:no-readable-restart-file-after-the-run", f"screen={spec['screen']}"))
                return probs, res
            if cfg["current"]["cstep"] != c["ext"]:
                probs.append(("C17:cstep-in-restart-file", f"{cfg['current']['cstep']} != {c['ext']}"))
            if cfg["current"]["locked"]:
                probs.append(("C17:finished-run-lists-jobs-in-flight", f"locked={cfg['current']['locked']} (W={W}, remaining at restart {c['ext'] - start2})"))
            rows = simdrv.parse_data_file(os.path.join(h["rundir"], "infretis_data.txt"), n)
            acc = sum(r.get("stats", {}).get("accepted", 0) for r in res)
            zs_acc = None
        # third lifetime: finished run started again does nothing
        if not r3.get("config_none") and (r3.get("prep_count", 0) or r3.get("treat_count", 0)):
            probs.append(("C17:finished-run-restarted-runs-moves", f"{r3.get('prep_count')} jobs, {r3.get('treat_count')} results"))
        return probs, res
    finally:
        isolate.rmscratch(h["rundir"])


def check_finished(probs, r, target, start, tag):
    want = max(0, target - start)
    if not r.get("ended"):
        probs.append((f"C17:{tag}:did-not-end", str({k: r.get(k) for k in ('killed', 'config_none')})))
        return
    if r.get("treat_count") != want:
        probs.append((f"C17:{tag}:moves-completed", f"{r.get('treat_count')} completed, requested {want} (from {start} to {target})"))
    if r.get("prep_count") != want:
        probs.append((f"C17:{tag}:jobs-issued-differ-from-moves", f"{r.get('prep_count')} issued for {want} moves (from {start} to {target})"))
    if r.get("cstep_end") is not None and want and r.get("cstep_end") != target:
        probs.append((f"C17:{tag}:step-counter", f"{r.get('cstep_end')} != {target}"))
    if r.get("inflight_at_end") or r.get("units_left_in_runner"):
        probs.append((f"C17:{tag}:job-left-in-flight", f"{r.get('inflight_at_end')} units in runner {r.get('units_left_in_runner')}"))
    if r.get("locked_mem"):
        probs.append((f"C17:{tag}:restart-record-lists-jobs", str(r.get("locked_mem"))))
    if not r.get("runner_stopped"):
        probs.append((f"C17:{tag}:runner-not-stopped", ""))


def _grid_worker(job):
    pid, cases, seed = job
    rec = Rec(pid)
    for c in cases:
        probs, res = run_grid_case(c, seed)
        inflight_at_restart = c["mode"] == "kill" and c["W"] >= 2
        rec.case(key=c, nontrivial=inflight_at_restart or (c["ext"] - c["k"] < c["W"] and c["ext"] > c["k"]),
                 classes=["grid", f"W={c['W']}", "grid:" + c["mode"]] + (["grid:restart-with-fewer-workers" if c["W2"] < c["W"] else "grid:restart-with-more-workers"] if c.get("W2") else []) + (["grid:restarted-lifetime-killed-before-its-first-result"] if c.get("stall") else []) + [ "grid:short-extension" if 0 < c["ext"] - c["k"] < c["W"] else "grid:extension>=W"],
                 sample=c if len(rec.samples) < 2 and inflight_at_restart else None)
        for sig, msg in probs:
            rec.violation(sig, f"{msg}; case={c}", {"part": "grid", "case": c, "seed": seed})
    return rec


# --------------------------------------------------------------- (b) the real aiorunner
def unit_task(item):
    """Work unit for the real runner: leaves one line per execution, sleeps, maybe fails."""
    with open(os.path.join(item["dir"], f"unit{item['id']}"), "a") as fh:
        fh.write(f"{os.getpid()}\n")
    time.sleep(item["dur"])
    if item["fail"] == "die":
        os._exit(7)  # the worker process dies (segfault / OOM kill of the MD program's wrapper): the pool is broken from here on
    if item["fail"]:
        raise {"value": ValueError, "runtime": RuntimeError, "key": KeyError}[item["fail"]](f"unit {item['id']}")
    item["out"] = item["id"] * 7 + 1
    return item


@st.composite
def runner_cases(draw):
    nw = draw(st.integers(1, 4))
    nunits = draw(st.integers(nw, 9))
    units = []
    for i in range(nunits):
        units.append({"id": i, "dur": draw(st.sampled_from([0.0, 0.0, 0.01, 0.03, 0.06])), "fail": draw(st.sampled_from([None, None, None, "value", "runtime", "key"]))})
    # after the first nw submissions, each completion consumed may be followed by one submission (scheduler pattern)
    # or several completions are awaited first
    lag = draw(st.lists(st.integers(0, 2), min_size=nunits, max_size=nunits))
    # mode "burst": everything is submitted at once (more units than workers wait in the runner's queue) and stop() is called
    # while work is outstanding; the results are then taken from the futures
    case = {"nw": nw, "units": units, "lag": lag, "mode": draw(st.sampled_from(["scheduler", "scheduler", "burst", "burst-consume-some"]))}
    if nunits >= 2 and draw(st.integers(0, 5)) == 0:
        # one unit kills its worker process: that unit and every later one must still be answered (with an exception), exactly once
        case["units"][draw(st.integers(0, nunits - 2))]["fail"] = "die"
        case["mode"] = "scheduler"
    return case


def _runner_child(c):
    import logging
    import threading

    from infretis.asyncrunner import aiorunner, future_list

    logging.disable(logging.CRITICAL)
    d = os.getcwd()
    probs = []
    runner = aiorunner({}, c["nw"])
    runner.set_task(unit_task)
    runner.start()
    futs = future_list()
    fmap = {}
    pending = list(c["units"])
    got = []

    def submit():
        u = dict(pending.pop(0))
        u["dir"] = d
        f = runner.submit_work(u)
        fmap[id(f)] = u["id"]
        futs.add(f)

    mode = c.get("mode", "scheduler")
    if mode != "scheduler":
        # submit_work() itself takes 0.05 s: units must outlast the submission phase for work to be queued when stop() is called
        pending = [dict(u, dur=max(u["dur"], 0.3)) for u in pending]
    for _ in range(min(c["nw"], len(pending)) if mode == "scheduler" else len(pending)):
        submit()
    deadline = time.time() + 60
    outstanding = len(fmap)
    k = 0
    if mode == "burst":
        outstanding_at_stop, outstanding = outstanding, 0
    elif mode == "burst-consume-some":
        outstanding_at_stop = outstanding // 2
    else:
        outstanding_at_stop = 0
    while outstanding > outstanding_at_stop * (mode == "burst-consume-some") and time.time() < deadline:
        time.sleep(0.01 * c["lag"][k % len(c["lag"])])
        f = futs.as_completed()
        if f is None:
            probs.append(("C17:runner:as_completed-returned-None-with-work-outstanding", f"{outstanding} outstanding"))
            break
        uid = fmap.get(id(f))
        k += 1
        outstanding -= 1
        try:
            r = f.result()
            got.append((uid, "ok", r.get("id"), r.get("out")))
        except Exception as exc:  # noqa: BLE001
            got.append((uid, "exc", type(exc).__name__, str(exc)))
        if pending:
            submit()
            outstanding += 1
    if mode == "scheduler" and outstanding and time.time() >= deadline:
        probs.append(("C17:runner:results-not-delivered-in-time", f"{outstanding} outstanding after 60 s"))
    t0 = time.time()
    stopper = threading.Thread(target=runner.stop, daemon=True)
    stopper.start()
    stopper.join(20 if mode == "scheduler" else 60)
    if stopper.is_alive():
        probs.append(("C17:runner:stop-does-not-return", "20 s"))
    elif runner._thread.is_alive():
        probs.append(("C17:runner:event-loop-thread-alive-after-stop", ""))
    stop_s = time.time() - t0
    if mode != "scheduler" and not stopper.is_alive():
        # stop() returned with work submitted before it: every such unit has run and its future holds its own outcome
        delivered = {g[0] for g in got}
        for f in list(getattr(futs, "_futures", [])):
            uid = fmap.get(id(f))
            if uid in delivered:
                continue
            if not f.done():
                probs.append(("C17:runner:stop-returned-with-a-submitted-unit-unfinished", f"unit {uid}"))
                continue
            try:
                r = f.result()
                got.append((uid, "ok", r.get("id"), r.get("out")))
            except Exception as exc:  # noqa: BLE001
                got.append((uid, "exc", type(exc).__name__, str(exc)))
    # oracle
    ids = [g[0] for g in got]
    if len(set(ids)) != len(ids):
        probs.append(("C17:runner:future-delivered-twice", str(ids)))
    broken = any(u["fail"] == "die" for u in c["units"])
    for u in c["units"]:
        path = os.path.join(d, f"unit{u['id']}")
        n = len(open(path).read().split()) if os.path.exists(path) else 0
        if broken:
            # once a worker process has died the pool is broken: units may not run any more, but each is answered exactly once,
            # and an answer that claims success is the unit's own result
            mine = [g for g in got if g[0] == u["id"]]
            if len(mine) != 1:
                probs.append(("C17:runner:result-not-delivered-exactly-once:after-a-worker-process-died", f"unit {u['id']}: {mine}"))
            elif mine[0][1] == "ok" and (n != 1 or mine[0][2] != u["id"] or mine[0][3] != u["id"] * 7 + 1):
                probs.append(("C17:runner:wrong-result-delivered", f"unit {u['id']}: {mine[0]} executed {n} times"))
            elif u["fail"] == "die" and mine[0][1] != "exc":
                probs.append(("C17:runner:dead-worker-reported-as-success", f"unit {u['id']}: {mine[0]}"))
            if n > 1:
                probs.append(("C17:runner:unit-not-executed-exactly-once", f"unit {u['id']} executed {n} times"))
            continue
        if n != 1:
            probs.append(("C17:runner:unit-not-executed-exactly-once", f"unit {u['id']} executed {n} times"))
        mine = [g for g in got if g[0] == u["id"]]
        if len(mine) != 1:
            probs.append(("C17:runner:result-not-delivered-exactly-once", f"unit {u['id']}: {mine}"))
            continue
        g = mine[0]
        if u["fail"]:
            name = {"value": "ValueError", "runtime": "RuntimeError", "key": "KeyError"}[u["fail"]]
            if g[1] != "exc" or g[2] != name or f"unit {u['id']}" not in g[3]:
                probs.append(("C17:runner:wrong-exception-delivered", f"unit {u['id']} expected {name}: {g}"))
        elif g[1] != "ok" or g[2] != u["id"] or g[3] != u["id"] * 7 + 1:
            probs.append(("C17:runner:wrong-result-delivered", f"unit {u['id']}: {g}"))
    # pool processes are only reaped at interpreter exit (ProcessPoolExecutor); reported, not judged
    pool_alive = len([p for p in (getattr(runner._executor, "_processes", None) or {}).values() if p.is_alive()])
    try:
        runner._executor.shutdown(wait=False, cancel_futures=True)
    except Exception:  # noqa: BLE001
        pass
    return probs, {"stop_s": stop_s, "pool_alive_after_stop": pool_alive, "order": ids}


def body_runner(rec, c):
    d = isolate.mkscratch("run_")
    try:
        try:
            probs, info = isolate.run_in_fork(_runner_child, (c,), cwd=d, timeout=120)
        except isolate.ChildTimeout:
            probs, info = [("C17:runner:hangs", "child exceeded 120 s")], {}
    finally:
        isolate.rmscratch(d)
    nfail = sum(1 for u in c["units"] if u["fail"])
    ties = len(c["units"]) - len({u["dur"] for u in c["units"]})
    nt = nfail >= 1 and ties >= 1 and c["nw"] >= 2
    rec.case(key=c, nontrivial=nt, classes=["runner", f"nw={c['nw']}", f"failing={min(nfail,3)}"],
             sample={"case": c, "delivery_order": info.get("order")} if nt and len(rec.samples) < 2 else None)
    if info.get("pool_alive_after_stop"):
        rec.cls("runner:pool-processes-alive-after-stop(reported only)")
    for sig, msg in probs:
        rec.check(False, sig, f"{msg}; case={c}")


# ---------------------------------------- (c) real scheduler + real runner vs the deterministic runner
def _real_child(_):
    import logging

    from infretis.bin import internalrun

    logging.disable(logging.WARNING)
    internalrun("infretis.toml")
    return True


def e2e_case(rec, n, steps, seed):
    moves = ["sh"] + ["wf" if i % 2 else "sh" for i in range(n - 1)]
    spec = simdrv.lattice_spec(n=n, moves=moves, workers=1, steps=steps, seed=seed, maxlength=200)
    d_real = simdrv.make_rundir(spec)
    try:
        isolate.run_in_fork(_real_child, (0,), cwd=d_real, timeout=300)
        a, cfg = snapshot(d_real)
    finally:
        isolate.rmscratch(d_real)
    h = simdrv.run_history(spec, [{"steps": steps}], {}, keep=True)
    try:
        b, _ = snapshot(h["rundir"])
    finally:
        isolate.rmscratch(h["rundir"])
    dk = diff_keys(a, b)
    rec.case(key=[n, steps, seed], nontrivial=True, classes=["e2e-real-runner"], sample={"n": n, "steps": steps, "seed": seed, "cstep": cfg["current"]["cstep"]})
    if cfg["current"]["cstep"] != steps:
        rec.violation("C17:e2e:step-counter", f"{cfg['current']['cstep']} != {steps}", {"part": "e2e", "n": n, "steps": steps, "seed": seed})
    if dk:
        rec.violation("C17:e2e:real-runner-differs-from-deterministic-runner", f"{dk[:6]}", {"part": "e2e", "n": n, "steps": steps, "seed": seed})


def _real_multi_child(pin):
    """Real scheduler + real runner with several workers; every job a worker executes leaves one line in jobs.log."""
    import functools
    import logging

    from infretis.bin import internalrun
    from infretis.core import tis

    logging.disable(logging.WARNING)
    if pin:
        # the process may run on one core only (small machine, taskset, a batch system's CPU binding): fewer cores than workers
        os.sched_setaffinity(0, {sorted(os.sched_getaffinity(0))[0]})
    orig = tis.run_md

    @functools.wraps(orig)
    def run_md(md_items):
        fd = os.open("jobs.log", os.O_WRONLY | os.O_APPEND | os.O_CREAT)
        os.write(fd, b"job\n")
        os.close(fd)
        return orig(md_items)

    tis.run_md = run_md
    import infretis.setup as isetup

    if getattr(isetup, "run_md", None) is orig:
        isetup.run_md = run_md
    internalrun("infretis.toml")
    return True


def e2e_multi_case(rec, n, W, steps, seed, pin):
    moves = ["sh"] + ["wf" if i % 2 else "sh" for i in range(n - 1)]
    spec = simdrv.lattice_spec(n=n, moves=moves, workers=W, steps=steps, seed=seed, maxlength=200)
    d = simdrv.make_rundir(spec)
    replay = {"part": "e2e-multi", "n": n, "W": W, "steps": steps, "seed": seed, "pin": pin}
    try:
        try:
            isolate.run_in_fork(_real_multi_child, (pin,), cwd=d, timeout=300)
        except isolate.ChildTimeout:
            rec.case(key=[n, W, steps, seed, pin], nontrivial=True, classes=["e2e-real-runner:several-workers"])
            rec.violation("C17:e2e:real-run-does-not-end", f"n={n} W={W} steps={steps} pinned={pin}", replay)
            return
        cfg = simdrv.read_restart(d)
        jobs = len(open(os.path.join(d, "jobs.log")).read().split()) if os.path.exists(os.path.join(d, "jobs.log")) else 0
    finally:
        isolate.rmscratch(d)
    rec.case(key=[n, W, steps, seed, pin], nontrivial=True, classes=["e2e-real-runner:several-workers"] + (["e2e-real-runner:fewer-cores-than-workers"] if pin else []),
             sample={"n": n, "workers": W, "steps": steps, "pinned_to_one_core": pin, "jobs_executed": jobs})
    if cfg is None or cfg["current"]["cstep"] != steps:
        rec.violation("C17:e2e:step-counter", f"{None if cfg is None else cfg['current']['cstep']} != {steps} (W={W}, pinned={pin})", replay)
        return
    if jobs != steps:
        rec.violation("C17:e2e:jobs-executed-differ-from-requested-moves", f"{jobs} jobs executed by the workers for {steps} steps (W={W}, pinned to one core: {pin})", replay)
    if cfg["current"]["locked"]:
        rec.violation("C17:e2e:finished-run-lists-jobs-in-flight", f"locked={cfg['current']['locked']} (W={W}, pinned to one core: {pin})", replay)


def _e2e_worker(job):
    pid, n, steps, seed = job[:4]
    rec = Rec(pid)
    if len(job) > 4:
        e2e_multi_case(rec, n, job[4], steps, seed, job[5])
    else:
        e2e_case(rec, n, steps, seed)
    return rec


def run(ctx):
    ctx.rule = (
        "(a) grid through the deterministic runner: interfaces 3-5, every worker count 1..n-1, step counts W..W+6, every restart point k "
        "(clean stop at k, or kill after k completions), every extension steps..steps+W+2, completion-order policies oldest/newest/random "
        "(quick: a boundary subset of steps/k/extensions); oracle: jobs issued = results consumed = requested moves per lifetime, step counter, "
        "no job in flight / in the restart record / in the runner at the end, restart of a finished run does nothing. (b) the real aiorunner: "
        "Hypothesis task durations (many ties), failing tasks of three exception types, 1-4 workers, consumer lags: each unit executed once "
        "(side-effect file), each result/exception delivered once to the right future, stop() returns. (c) real scheduler()+aiorunner vs "
        "the deterministic runner on the lattice engine (1 worker): identical files. Non-trivial: (a) restart with jobs in flight or an "
        "extension shorter than the worker count; (b) >=1 failing unit, >=2 equal durations and >=2 workers."
    )
    ctx.assumptions = ["worker processes of the ProcessPoolExecutor are reaped at interpreter exit; their survival after stop() is reported, not judged"]
    part = getattr(ctx, "part", None)
    if not part or part == "grid":
        cases = grid_cases(ctx.quick)
        if ctx.quick:
            import random

            random.Random(ctx.seed).shuffle(cases)
            cases = cases[:900]
        ctx.note("grid_cases", len(cases))
        chunks = [cases[i::64] for i in range(64)]
        for r in pmap(ctx, _grid_worker, [(ctx.pid, ch, ctx.seed) for ch in chunks if ch]):
            ctx.merge(r)
        ctx.note("grid_exhaustive_over_stated_ranges", not ctx.quick)
    run_property(ctx, "runner", runner_cases, body_runner, ctx.pick(64, 600), shards=ctx.procs, shrink=not ctx.quick)
    if not part or part == "e2e":
        jobs = [(ctx.pid, n, s, derive_seed(ctx.seed, "e2e", n, s) % 1000) for n, s in ([(3, 6), (4, 8)] if ctx.quick else [(3, 6), (4, 8), (5, 12), (3, 15), (4, 20), (5, 9)])]
        jobs += [(ctx.pid, n, st_, derive_seed(ctx.seed, "e2em", n, st_) % 1000, W, pin) for n, st_, W, pin in
                 ([(4, 8, 3, True), (4, 7, 2, False)] if ctx.quick else [(4, 8, 3, True), (4, 7, 2, False), (5, 11, 4, True), (5, 9, 2, True), (3, 6, 2, False), (5, 13, 3, False)])]
        for r in pmap(ctx, _e2e_worker, jobs):
            ctx.merge(r)


def replay(ctx, data):
    if data["part"] == "grid":
        probs, _ = run_grid_case(data["case"], data.get("seed", 3))
        for sig, msg in probs:
            ctx.violation(sig, msg, data)
    elif data["part"] == "runner":
        try:
            body_runner(ctx, data["case"])
        except Violation as v:
            ctx.violation(v.signature, v.message, data)
    elif data["part"] == "e2e-multi":
        e2e_multi_case(ctx, data["n"], data["W"], data["steps"], data["seed"], data["pin"])
    elif data["part"] == "e2e":
        e2e_case(ctx, data["n"], data["steps"], data["seed"])
