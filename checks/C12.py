"""C12 - every engine returns the trajectory it actually ran."""

import json
import math
import os
import sys
import time

import numpy as np
from hypothesis import strategies as st

from vlib import enginekit as ek
from vlib import isolate
from vlib.cli import Violation
from vlib.hyp import run_property
from vlib.oracles import trr as trrref

# GromacsRunner.__del__ calls close() also when the TRR file was never opened (program died first): the
# interpreter prints "Exception ignored in __del__ ... no attribute 'fileh'" for each; keep the check log readable.
sys.unraisablehook = lambda unraisable: None

PY = sys.executable
FAKE = {k: f"{PY} {os.path.join(ek.FAKEBIN, k)}" for k in ("lmp", "cp2k", "gmx")}
EXT = ["lammps", "cp2k", "gromacs"]
INPROC = ["ase", "turtlemd"]


# ---------------------------------------------------------------- independent frame readers
def frames_lammps(path):
    lines = open(path).read().splitlines()
    out, i = [], 0
    while i + 3 < len(lines):
        n = int(lines[i + 3])
        if len(lines) < i + 9 + n:
            break  # trailing partial frame (writer was stopped)
        box = [[float(x) for x in lines[i + 5 + d].split()[:2]] for d in range(3)]
        rows = {}
        for ln in lines[i + 9 : i + 9 + n]:
            sp = ln.split()
            if len(sp) < 8:
                break
            rows[int(sp[0])] = ([float(x) for x in sp[2:5]], [float(x) for x in sp[5:8]])
        if len(rows) < n:
            break
        ids = sorted(rows)
        lo = np.array([b[0] for b in box])
        out.append({"pos": np.array([rows[k][0] for k in ids]) - lo, "vel": np.array([rows[k][1] for k in ids]), "box": np.array([b[1] - b[0] for b in box])})
        i += 9 + n
    return out


def frames_xyz(path):
    lines = open(path).read().splitlines()
    out, i = [], 0
    while i + 1 < len(lines):
        n = int(lines[i].split()[0])
        if len(lines) < i + 2 + n:
            break
        hdr = lines[i + 1].lower()
        box = np.array([float(x) for x in hdr.split("box:")[1].split()][:3]) if "box:" in hdr else None
        pos, vel = [], []
        for ln in lines[i + 2 : i + 2 + n]:
            sp = ln.split()
            pos.append([float(x) for x in sp[1:4]])
            vel.append([float(x) for x in sp[4:7]])
        out.append({"pos": np.array(pos), "vel": np.array(vel), "box": box})
        i += 2 + n
    return out


def frames_trr(path):
    out = []
    for fr in trrref.decode_file(open(path, "rb").read()):
        n = fr["natoms"]
        out.append({"pos": np.array(fr["x"]).reshape(n, 3), "vel": np.array(fr["v"]).reshape(n, 3), "box": np.array([fr["box"][0], fr["box"][4], fr["box"][8]])})
    return out


def frames_g96(path):
    from checks.C16 import read_g96

    g = read_g96(path)
    return [{"pos": g["pos"], "vel": g["vel"], "box": np.array(g["box"][:3]) if g["box"] else None}]


def frames_ase(path):
    from ase.io import read

    ats = read(path, index=":")
    return [{"pos": a.positions.copy(), "vel": a.get_velocities().copy(), "box": a.cell.diagonal().copy()} for a in ats]


READERS = {".lammpstrj": frames_lammps, ".xyz": frames_xyz, ".trr": frames_trr, ".g96": frames_g96, ".traj": frames_ase}


def frame_of(config):
    f, idx = config
    return READERS[os.path.splitext(f)[1]](f)[idx if idx is not None else 0]


# ----------------------------------------------------------------- reference order parameters
def ref_order(kind, fr, vel_rev, idx=(0, 1), dim=0):
    pos, vel, box = fr["pos"], fr["vel"] * (-1.0 if vel_rev else 1.0), fr["box"]
    if kind == "velocity":
        return float(vel[idx[0]][dim])
    d = pos[idx[1]] - pos[idx[0]]
    if box is not None:
        L = np.asarray(box, float)[:3]
        d = d - np.round(d / L) * L
    r = float(np.linalg.norm(d))
    if kind == "distance":
        return r
    return float(np.dot(d, vel[idx[1]] - vel[idx[0]]) / r)


def make_op(kind):
    from infretis.classes.orderparameter import Distance, Distancevel, Velocity

    if kind == "distance":
        return Distance((0, 1), periodic=True)
    if kind == "velocity":
        return Velocity(0, "x")
    return Distancevel((0, 1), periodic=True)


# ----------------------------------------------------------------------- building an engine + start point
def build(c, root):
    eng_name = c["engine"]
    n = c["n"]
    pos = np.array(c["pos"][:n], float)
    vel = np.array(c["vel"][:n], float)
    srcdir = os.path.join(root, "src")
    os.makedirs(srcdir, exist_ok=True)
    k = c["src_index"]
    # a multi-frame source file whose frame k is the start point (other frames are decoys)
    decoy = lambda j: (pos + 0.37 * (j + 1), vel * 0.5 - 0.01 * (j + 1))  # noqa: E731
    frames = [decoy(j) if j != k else (pos, vel) for j in range(k + 1 + c["src_extra"])]
    if eng_name == "lammps":
        eng = ek.make_lammps(root, [1.0, 2.5], [1 + (i % 2) for i in range(n)], pos.tolist(), temperature=300.0, lmp=FAKE["lmp"], subcycles=c["subcycles"], timestep=c["dt"], sleep=c["poll"])
        src = os.path.join(srcdir, "start.lammpstrj")
        lo = c["box_lo"]
        with open(src, "w") as fh:
            for j, (p, v) in enumerate(frames):
                # (the box of the start frame need not be the one of the data file the input reads first: read_dump ... box yes)
                L = {"same": 30.0, "other": 33.0, "grow": 30.0 + 0.6 * (j + 1)}[c.get("src_box", "same")]
                fh.write(ek.lammps_frame_text([1 + (i % 2) for i in range(n)], (p + lo).tolist(), v.tolist(), [(lo, lo + L), (lo, lo + L), (lo, lo + L + (L != 30.0))], order=list(range(n))[::-1], trailing_id=True))
    elif eng_name == "cp2k":
        eng = ek.make_cp2k(root, ["H", "O", "C", "H"][:n], pos.tolist(), temperature=300.0, cp2k=FAKE["cp2k"], subcycles=c["subcycles"], timestep=c["dt"], sleep=c["poll"], cell_form=c.get("cell_form", "ABC"))
        from infretis.classes.engines.engineparts import write_xyz_trajectory

        src = os.path.join(srcdir, "start.xyz")
        for j, (p, v) in enumerate(frames):
            # (a start configuration may carry no box, like the xyz files CP2K itself writes: the cell of the input applies then)
            write_xyz_trajectory(src, p, v, ["H", "O", "C", "H"][:n], None if c.get("src_nobox") else np.array([30.0, 30.0, 30.0]), step=j, append=True)
    elif eng_name == "gromacs":
        eng = ek.make_gromacs(root, [1.0, 16.0, 12.0, 1.0][:n], (pos / 10).tolist(), temperature=300.0, gmx=FAKE["gmx"], subcycles=c["subcycles"], timestep=c["dt"])
        eng.mdrun = FAKE["gmx"] + " mdrun -s {} -deffnm {} -c {}"
        # start point: frame k of a TRR written by the independent encoder (GROMACS units: box 3 nm)
        src = os.path.join(srcdir, "start.trr")
        with open(src, "wb") as fh:
            for j, (p, v) in enumerate(frames):
                # (the box of the start frame need not be the one of the engine's input configuration - pressure coupling)
                L = {"same": 3.0, "other": 3.3, "grow": 3.0 + 0.06 * (j + 1)}[c.get("src_box", "same")]
                raw, _ = trrref.encode_frame(n, j, 0.0, 0.0, box=[L, 0, 0, 0, L, 0, 0, 0, L + 0.1 * (L != 3.0)], x=(p / 10).ravel().tolist(), v=(v / 10).ravel().tolist(), double=True)
                fh.write(raw)
        from infretis.classes.engines import gromacs as g

        g.GromacsRunner.SLEEP = c["poll"]
    elif eng_name == "ase":
        eng = ek.make_ase(root, temperature=300.0, integrator="velocityverlet", subcycles=c["subcycles"], timestep=c["dt"], forces=c.get("forces", False))
        from ase import Atoms
        from ase.io import Trajectory

        src = os.path.join(srcdir, "start.traj")
        tr = Trajectory(src, "w")
        for p, v in frames:
            at = Atoms(symbols=["H", "O", "C", "H"][:n], positions=p, cell=[30.0] * 3, pbc=True)
            at.set_velocities(v * 0.01)
            tr.write(at)
        tr.close()
    elif eng_name == "turtlemd":
        eng = ek.make_turtlemd(root, [1.0, 2.0, 3.0, 1.0][:n], pos.tolist(), temperature=1.0, integrator="VelocityVerlet", subcycles=c["subcycles"], timestep=c["dt"] * 0.01, forces=c.get("forces", False))
        from infretis.classes.engines.engineparts import write_xyz_trajectory

        src = os.path.join(srcdir, "start.xyz")
        for j, (p, v) in enumerate(frames):
            write_xyz_trajectory(src, p, v, ["Ar"] * n, np.array([50.0, 50.0, 50.0]), step=j, append=True)
    else:
        raise ValueError(eng_name)
    eng.order_function = make_op(c["op"])
    eng.rgen = np.random.default_rng(5)
    return eng, src


PROPAGATE_LIMIT = 40


class PropagateTimeout(BaseException):
    pass


class time_limit:
    """SIGALRM-based bound for one call in the (single-threaded) shard process."""

    def __init__(self, seconds):
        self.seconds = seconds

    def __enter__(self):
        import signal

        def handler(signum, frame):
            raise PropagateTimeout()

        self.old = signal.signal(signal.SIGALRM, handler)
        signal.alarm(self.seconds)

    def __exit__(self, *exc):
        import signal

        signal.alarm(0)
        signal.signal(signal.SIGALRM, self.old)
        return False


def live_children(exe_dir, grace=1.5):
    """Non-zombie processes whose command line mentions the run directory. A process that has been signalled may need
    a moment to be scheduled and die on a loaded machine: look again for up to `grace` seconds before reporting it;
    what is still there then is killed (and reported)."""
    import signal
    import time

    t0 = time.time()
    while True:
        out = _live_children(exe_dir)
        if not out or time.time() - t0 > grace:
            break
        time.sleep(0.02)
    for pid, _ in out:
        try:
            os.kill(int(pid), signal.SIGKILL)
        except OSError:
            pass
    return out


def _live_children(exe_dir):
    out = []
    for pid in os.listdir("/proc"):
        if not pid.isdigit() or int(pid) == os.getpid():
            continue
        try:
            cmd = open(f"/proc/{pid}/cmdline", "rb").read().replace(b"\0", b" ").decode(errors="replace")
            stat = open(f"/proc/{pid}/stat").read().split(") ")[1].split()[0]
            cwd = os.readlink(f"/proc/{pid}/cwd")
        except (FileNotFoundError, ProcessLookupError, PermissionError, IndexError):
            continue
        if stat != "Z" and (exe_dir in cmd or cwd.startswith(exe_dir)):
            out.append((pid, cmd[:80]))
    return out


# ------------------------------------------------------------------------------ cases
@st.composite
def cases(draw, engines):
    eng = draw(st.sampled_from(engines))
    n = draw(st.integers(2, 4))
    wrap = draw(st.booleans())  # atoms 0 and 1 further apart than half a box: the box matters for the order parameter
    p0 = [draw(st.floats(3, 5).map(lambda x: round(x, 3)))] + [draw(st.floats(3, 9).map(lambda x: round(x, 3))) for _ in range(2)]  # all atoms inside the 30 A box
    sep = draw(st.floats(17, 24) if wrap else st.floats(1.0, 6.0)).__round__(3)
    pos = [p0, [p0[0] + sep, p0[1] + 0.5, p0[2]]] 
    # spectator atoms: never on top of each other or of atoms 0/1 (coincident atoms make the pair potential 0*inf = nan)
    f3 = lambda lo, hi: draw(st.floats(lo, hi).map(lambda x: round(x, 3)))  # noqa: E731
    pos += [[f3(5, 14), f3(5, 25), f3(11, 25)], [f3(16, 25), f3(5, 25), f3(11, 25)]]
    v = st.floats(-1.5, 1.5).map(lambda x: round(x, 4))
    vel = [[draw(v) for _ in range(3)] for _ in range(4)]
    vel[0][0] = draw(st.sampled_from([0.9, -0.7, 1.3]))
    vel[1][0] = draw(st.sampled_from([-1.1, 0.6, -0.4]))
    op = draw(st.sampled_from(["distance", "distance", "velocity", "distancevel"]))
    c = {"engine": eng, "n": n, "pos": pos, "vel": vel, "op": op, "subcycles": draw(st.integers(1, 3)), "dt": draw(st.sampled_from([0.05, 0.1, 0.2])),
         "maxlen": draw(st.integers(2, 14)), "reverse": draw(st.booleans()), "vel_rev": draw(st.booleans()), "src_index": draw(st.integers(0, 2)), "src_extra": draw(st.integers(0, 1)),
         "width": draw(st.sampled_from([0.02, 0.08, 0.3, 50.0])), "skew": draw(st.sampled_from([0.2, 0.5, 0.8])), "box_lo": draw(st.sampled_from([0.0, 0.0, -2.5])),
         "poll": draw(st.sampled_from([0.001, 0.004, 0.02])),
         "beh": {"flush": draw(st.lists(st.integers(1, 4), min_size=1, max_size=3)), "pause": draw(st.sampled_from([0.0, 0.002, 0.01])), "partial": draw(st.booleans()),
                 "die_at": draw(st.sampled_from([None, None, None, 1, 3, 6])), "exit_code": draw(st.sampled_from([0, 0, 3])), "ignore_term": draw(st.sampled_from([0.0, 0.0, 0.05])),
                 "box_rate": draw(st.sampled_from([0.0, 0.0, 0.25])) if eng in ("lammps",) else 0.0, "tail_sleep": draw(st.sampled_from([0.0, 0.01])),
                 "trr_double": draw(st.booleans()), "trr_endian": draw(st.sampled_from([">", "<"]))}}
    if c["beh"]["die_at"] is not None and c["beh"]["exit_code"] == 0:
        c["beh"]["exit_code"] = 3
    if c["beh"]["die_at"] is not None and draw(st.sampled_from([False, False, True])):
        c["beh"]["die_signal"] = draw(st.sampled_from([9, 6, 11]))  # killed / abort / segfault instead of an exit code
    c["twin"] = draw(st.sampled_from([False, False, True]))
    if eng in ("gromacs", "lammps"):
        c["src_box"] = draw(st.sampled_from(["same", "other", "grow"]))
    if eng == "cp2k":
        c["cell_form"] = draw(st.sampled_from(["ABC", "vectors", "angles"]))  # three spellings of the same 30 A cell
        c["src_nobox"] = draw(st.booleans())
    if eng in EXT and c["beh"]["die_at"] is None and draw(st.sampled_from([False, False, False, True])):
        # the program idles after frame k (so it is polled while alive), then writes everything that is left and exits at once
        c["beh"]["burst_from"] = draw(st.integers(0, 3))
        c["beh"]["poll_hint"] = c["poll"]
        c["beh"]["tail_sleep"] = 0.0
    if eng in EXT and draw(st.sampled_from([False, False, True])):
        # the command is a wrapper / launcher: the worker is its child and lingers after its last frame
        c["beh"]["launcher"] = True
        c["beh"]["tail_sleep"] = 3.0
    return c


def ext_cases():
    return cases(EXT)


def inproc_cases():
    return cases(INPROC)


def body(rec, c):
    from infretis.classes.path import Path

    root = isolate.mkscratch("eng_")
    eng_name = c["engine"]
    try:
        try:
            eng, src = build(c, root)
        except Exception as exc:  # noqa: BLE001
            import traceback

            raise Violation(f"{eng_name}:engine-construction-raises:{type(exc).__name__}", f"{exc!r}\n{traceback.format_exc()[-600:]} case={c}")
        if eng_name in EXT:
            with open(os.path.join(eng.exe_dir, "fake_behaviour.json"), "w") as fh:
                json.dump(c["beh"], fh)
        twin = None
        if c.get("twin"):
            import pickle

            # a second engine object of the same worker (as in the multi-engine / QuanTIS layouts, where a move runs two
            # engines in the worker's directory under one ensemble name)
            twin = pickle.loads(pickle.dumps(eng))
        system = ek.system_for(src, c["src_index"], vel_rev=c["vel_rev"])
        init = frame_of((src, c["src_index"]))
        if eng_name == "gromacs":
            pass  # TRR source is already in nm
        o0 = ref_order(c["op"], init, c["vel_rev"])
        left, right = o0 - c["width"] * c["skew"], o0 + c["width"] * (1 - c["skew"])
        ens_set = {"interfaces": (left, (left + right) / 2, right), "ens_name": "007"}
        path = Path(maxlen=c["maxlen"])
        will_die = eng_name in EXT and c["beh"]["die_at"] is not None
        may_fail = eng_name in EXT and (will_die or c["beh"]["exit_code"] != 0)
        err = None
        t0 = time.time()
        try:
            with time_limit(PROPAGATE_LIMIT):
                success, status = eng.propagate(path, ens_set, system, reverse=c["reverse"])
        except PropagateTimeout:
            # (a generous bound, not a correctness clock: these propagations take milliseconds to a few seconds; the external
            #  program of the case has long exited or been told to stop when this fires)
            for pid_, _ in _live_children(eng.exe_dir):
                try:
                    os.kill(int(pid_), 9)
                except OSError:
                    pass
            raise Violation(f"{eng_name}:propagate-does-not-return", f"still inside propagate() after {PROPAGATE_LIMIT} s; case={c}")
        except RuntimeError as exc:
            err = exc
        except Exception as exc:  # noqa: BLE001
            import traceback

            raise Violation(f"{eng_name}:propagate-raises:{type(exc).__name__}", f"{exc!r}\n{traceback.format_exc()[-900:]} case={c}")
        orders = [pp.order[0] for pp in path.phasepoints]
        inside = [left <= o <= right for o in orders]
        nframes_poll = max(c["beh"]["flush"]) if eng_name in EXT else 1
        classes = ["engine:" + eng_name, f"op:{c['op']}", "reverse" if c["reverse"] else "forward"]
        if eng_name in EXT and nframes_poll >= 2:
            classes.append("several-frames-per-flush")
        if c["beh"]["box_rate"]:
            classes.append("varying-box")
        if will_die:
            classes.append("program-dies-by-signal" if c["beh"].get("die_signal") else "program-dies-with-exit-code")
        if c["beh"].get("burst_from") is not None and eng_name in EXT:
            classes.append("program-writes-the-rest-in-one-burst-and-exits")
        if c["beh"].get("launcher") and eng_name in EXT:
            classes.append("program-is-a-launcher-with-a-worker-child")
        if len(orders) == c["maxlen"]:
            classes.append("stopped-at-maxlen")
        nt = (eng_name in EXT and nframes_poll >= 2) or bool(c["beh"]["box_rate"]) or (c["op"] != "distance" and c["reverse"]) or len(orders) == c["maxlen"] or will_die
        rec.case(key=c, nontrivial=nt, classes=classes,
                 sample={"engine": eng_name, "op": c["op"], "reverse": c["reverse"], "subcycles": c["subcycles"], "maxlen": c["maxlen"], "interfaces": [left, right], "orders": orders[:8],
                         "behaviour": c["beh"] if eng_name in EXT else None} if nt and len(rec.samples) < 3 else None)
        info = f"case={c}"
        # (6) failure of the external program raises (unless infretis had already stopped it)
        if err is not None:
            rec.check(may_fail, f"{eng_name}:RuntimeError-without-program-failure", f"{err} {info}")
            rec.cls("RuntimeError-on-program-failure")
            rec.check(not live_children(eng.exe_dir), f"{eng_name}:process-left-running-after-failure", str(live_children(eng.exe_dir)))
            return
        if will_die:
            # the program died at frame die_at with exit code != 0: legitimate only if infretis stopped reading before
            died_before_stop = len(orders) > c["beh"]["die_at"] or (all(inside) and len(orders) < c["maxlen"])
            rec.check(not (all(inside) and len(orders) < c["maxlen"]), f"{eng_name}:program-failure-returns-truncated-path-silently",
                      f"exit code {c['beh']['exit_code']} at frame {c['beh']['die_at']}; path of {len(orders)} frames returned, success={success} {info}")
        rec.check(len(orders) >= 1, f"{eng_name}:empty-path", info)
        # (5) the external program is gone
        if eng_name in EXT:
            alive = live_children(eng.exe_dir)
            rec.check(not alive, f"{eng_name}:external-program-still-running-after-propagate", f"{alive} {info}")
        # (3) stop rule
        rec.check(len(orders) <= c["maxlen"], f"{eng_name}:path-longer-than-maxlen", f"{len(orders)} > {c['maxlen']}")
        rec.check(all(inside[:-1]), f"{eng_name}:frame-after-the-first-outside-frame", f"orders {orders} interfaces [{left}, {right}] {info}")
        last_out = not inside[-1]
        rec.check(bool(success) == last_out, f"{eng_name}:success-flag-disagrees-with-last-frame", f"success={success} last order {orders[-1]} interfaces [{left},{right}] len {len(orders)}/{c['maxlen']} {info}")
        if not last_out:
            rec.check(len(orders) == c["maxlen"], f"{eng_name}:stopped-early-inside-the-interfaces", f"{len(orders)} frames, maxlen {c['maxlen']}, orders {orders} {info}")
        # (1) first frame is the given point
        tolp = {"lammps": 1e-9, "cp2k": 2e-9, "gromacs": 2e-9 if c["beh"]["trr_double"] else 4e-7, "ase": 1e-9, "turtlemd": 2e-9}[eng_name]
        f0 = frame_of(path.phasepoints[0].config)
        phys0 = f0["vel"] * (-1.0 if path.phasepoints[0].vel_rev else 1.0)
        physi = init["vel"] * (-1.0 if c["vel_rev"] else 1.0)
        rec.check(np.allclose(f0["pos"], init["pos"], rtol=0, atol=tolp), f"{eng_name}:first-frame-is-not-the-given-point:positions", f"{f0['pos'].tolist()} vs {init['pos'].tolist()} {info}")
        rec.check(np.allclose(phys0, physi, rtol=0, atol=1e-7), f"{eng_name}:first-frame-is-not-the-given-point:velocities", f"{phys0.tolist()} vs {physi.tolist()} (reverse={c['reverse']}, vel_rev={c['vel_rev']})")
        if eng_name in ("gromacs", "lammps", "ase") and init["box"] is not None and f0["box"] is not None:
            rec.check(np.allclose(np.asarray(f0["box"], float)[:3], np.asarray(init["box"], float)[:3], rtol=0, atol=1e-5), f"{eng_name}:first-frame-is-not-the-given-point:box",
                      f"{np.asarray(f0['box']).tolist()} vs {np.asarray(init['box']).tolist()} {info}")
        # (2) stored order == order recomputed from the referenced frame, with its own box and velocity direction
        tolo = 5e-7 if eng_name != "gromacs" else 2e-6
        for k, pp in enumerate(path.phasepoints):
            rec.check(pp.config[1] == k and pp.vel_rev == c["reverse"], f"{eng_name}:frame-reference", f"frame {k}: {pp.config} vel_rev={pp.vel_rev}")
            try:
                fr = frame_of(pp.config)
            except Exception as exc:  # noqa: BLE001
                raise Violation(f"{eng_name}:referenced-frame-unreadable", f"frame {k} {pp.config}: {exc!r} {info}")
            if eng_name == "cp2k":
                # the cell is fixed and comes from the CP2K input (ABC 30 30 30 here): the engine writes it into every frame it converts
                rec.check(fr["box"] is not None and np.allclose(np.asarray(fr["box"], float)[:3], [30.0, 30.0, 30.0], rtol=0, atol=1e-6), "cp2k:frame-box-differs-from-the-cell-of-the-input",
                          f"frame {k}: box {None if fr['box'] is None else np.asarray(fr['box']).tolist()} {info}")
            want = ref_order(c["op"], fr, pp.vel_rev)
            rec.check(abs(pp.order[0] - want) <= tolo * max(1.0, abs(want)), f"{eng_name}:stored-order-differs-from-frame:{c['op']}:{'reverse' if c['reverse'] else 'forward'}",
                      f"frame {k}: stored {pp.order[0]!r}, recomputed from its configuration {want!r} (box {None if fr['box'] is None else fr['box'].tolist()}) orders={orders} {info}")
        # energies belong to the same frames
        if eng_name in EXT:
            for k, pp in enumerate(path.phasepoints):
                if pp.vpot is not None:
                    rec.check(abs(pp.vpot - (-1.0 - 0.01 * k)) < 1e-5 and abs(pp.ekin - (0.5 + 0.001 * k)) < 1e-5, f"{eng_name}:energies-attached-to-wrong-frame", f"frame {k}: vpot {pp.vpot} ekin {pp.ekin}")
        if twin is not None and not may_fail:
            import hashlib

            files1 = sorted({pp.config[0] for pp in path.phasepoints})
            dig1 = {f: hashlib.sha1(open(f, "rb").read()).hexdigest() for f in files1}
            path2 = Path(maxlen=c["maxlen"])
            with time_limit(PROPAGATE_LIMIT):
                twin.propagate(path2, ens_set, ek.system_for(src, c["src_index"], vel_rev=c["vel_rev"]), reverse=c["reverse"])
            files2 = sorted({pp.config[0] for pp in path2.phasepoints})
            rec.cls("second-engine-object-in-the-same-directory")
            rec.check(not set(files1) & set(files2), f"{eng_name}:two-engines-of-a-worker-write-the-same-trajectory-file", f"{sorted(set(files1) & set(files2))} {info}")
            dig1b = {f: hashlib.sha1(open(f, "rb").read()).hexdigest() if os.path.exists(f) else None for f in files1}
            rec.check(dig1 == dig1b, f"{eng_name}:trajectory-of-a-finished-path-changed-by-another-engine", f"{[f for f in files1 if dig1[f] != dig1b[f]]} {info}")
    finally:
        isolate.rmscratch(root)


# ------------------------------------------------------------------------- reversibility
@st.composite
def rev_cases(draw):
    c = draw(cases(EXT + INPROC))
    c["beh"].update({"die_at": None, "exit_code": 0, "box_rate": 0.0})
    c["width"], c["maxlen"], c["reverse"], c["vel_rev"], c["op"] = 50.0, draw(st.integers(4, 9)), False, False, "distance"
    c["j"] = draw(st.integers(1, 8))
    return c


# ---------------------------------------------------- in-process engines with real forces: sub-cycling and retracing
@st.composite
def force_cases(draw):
    c = draw(cases(INPROC))
    c["beh"].update({"die_at": None, "exit_code": 0, "box_rate": 0.0})
    c["forces"] = True
    c["width"], c["reverse"], c["vel_rev"], c["op"], c["src_index"], c["src_extra"] = 50.0, False, False, "distance", 0, 0
    c["subcycles"] = draw(st.integers(2, 4))
    c["maxlen"] = draw(st.integers(3, 7))
    # atoms 0 and 1 within interaction range and not on top of each other
    c["pos"][1] = [c["pos"][0][0] + draw(st.floats(1.1, 3.0).map(lambda x: round(x, 3))), c["pos"][0][1] + 0.5, c["pos"][0][2]]
    return c


def body_force(rec, c):
    """Frame k of a run with s MD steps per frame is MD step k*s of a run with one step per frame (same start, deterministic
    integrator); a backward run from frame j retraces the forward one. Forces vary along the trajectory (spring / Lennard-Jones)."""
    from infretis.classes.path import Path

    eng_name = c["engine"]
    root = isolate.mkscratch("frc_")
    try:
        s, m = c["subcycles"], c["maxlen"]
        ens_set = {"interfaces": (-1e9, 0.0, 1e9), "ens_name": "007"}
        c1 = dict(c, subcycles=1)
        eng1, src1 = build(c1, os.path.join(root, "one"))
        fine = Path(maxlen=s * (m - 1) + 1)
        eng1.propagate(fine, ens_set, ek.system_for(src1, 0), reverse=False)
        engs, srcs = build(c, os.path.join(root, "sub"))
        coarse = Path(maxlen=m)
        engs.propagate(coarse, ens_set, ek.system_for(srcs, 0), reverse=False)
        ffine = [frame_of(pp.config) for pp in fine.phasepoints]
        fcoarse = [frame_of(pp.config) for pp in coarse.phasepoints]
        moved = float(np.abs(ffine[-1]["vel"][:2] - ffine[0]["vel"][:2]).max())
        rec.case(key=c, nontrivial=moved > 1e-6, classes=["forces", "forces:" + eng_name, f"forces:subcycles={s}"],
                 sample={"engine": eng_name, "subcycles": s, "frames": m, "velocity_change_of_atoms_0_1": moved} if len(rec.samples) < 1 else None)
        rec.check(len(fcoarse) == m and len(ffine) == s * (m - 1) + 1, f"{eng_name}:forces:length", f"{len(fcoarse)} / {len(ffine)}")
        tol = 1e-7
        for k in range(m):
            a, b = fcoarse[k], ffine[k * s]
            dx = float(np.abs(a["pos"] - b["pos"]).max())
            dv = float(np.abs(a["vel"] - b["vel"]).max())
            rec.check(dx <= tol and dv <= tol, f"{eng_name}:frame-k-of-a-subcycled-run-is-not-md-step-k*s", f"frame {k} (subcycles {s}): max |dx| {dx:.3g} |dv| {dv:.3g} case={c}")
        # retrace: backward from coarse frame j
        j = m - 1
        bwd = Path(maxlen=j + 1)
        engs.propagate(bwd, ens_set, ek.system_for(coarse.phasepoints[j].config[0], j, vel_rev=False), reverse=True)
        fb = [frame_of(pp.config) for pp in bwd.phasepoints]
        rec.check(len(fb) == j + 1, f"{eng_name}:forces:backward-length", f"{len(fb)} vs {j + 1}")
        for i, b in enumerate(fb):
            f = fcoarse[j - i]
            dx = float(np.abs(b["pos"] - f["pos"]).max())
            rec.check(dx <= 5e-6, f"{eng_name}:backward-propagation-does-not-retrace-forward(with-forces)", f"backward frame {i} vs forward frame {j - i}: max |dx| {dx:.3g} case={c}")
    finally:
        isolate.rmscratch(root)


def body_rev(rec, c):
    from infretis.classes.path import Path

    root = isolate.mkscratch("rev_")
    eng_name = c["engine"]
    try:
        eng, src = build(c, root)
        if eng_name in EXT:
            with open(os.path.join(eng.exe_dir, "fake_behaviour.json"), "w") as fh:
                json.dump(c["beh"], fh)
        ens_set = {"interfaces": (-1e9, 0.0, 1e9), "ens_name": "007"}
        fwd = Path(maxlen=c["maxlen"])
        eng.propagate(fwd, ens_set, ek.system_for(src, c["src_index"]), reverse=False)
        j = min(c["j"], fwd.length - 1)
        # keep the forward trajectory file: the backward run must not overwrite it (different name)
        ff = [frame_of(pp.config) for pp in fwd.phasepoints]
        bwd = Path(maxlen=j + 1)
        start = ek.system_for(fwd.phasepoints[j].config[0], j, vel_rev=False)
        eng.propagate(bwd, ens_set, start, reverse=True)
        fb = [frame_of(pp.config) for pp in bwd.phasepoints]
        rec.case(key=c, nontrivial=j >= 2, classes=["reversibility", "rev:" + eng_name], sample={"engine": eng_name, "forward_frames": fwd.length, "backward_from": j} if len(rec.samples) < 1 else None)
        rec.check(len(fb) == j + 1, f"{eng_name}:backward-length", f"{len(fb)} vs {j+1}")
        tol = 5e-6
        for i, b in enumerate(fb):
            f = ff[j - i]
            rec.check(np.allclose(b["pos"], f["pos"], rtol=0, atol=tol), f"{eng_name}:backward-propagation-does-not-retrace-forward", f"backward frame {i} vs forward frame {j-i}: max |dx| {np.abs(b['pos']-f['pos']).max()} case={c}")
            rec.check(np.allclose(-b["vel"], f["vel"], rtol=0, atol=tol), f"{eng_name}:backward-velocities-not-reversed-forward", f"frame {i}: {(-b['vel']).tolist()} vs {f['vel'].tolist()}")
    finally:
        isolate.rmscratch(root)


# ---------------------------------------------------------------------------- plug-in engines
@st.composite
def plug_cases(draw):
    from checks.C09 import script_st

    return {"x0": draw(st.sampled_from([0.5, 1.0, 2.0, 3.5])), "script": draw(script_st(1))[0], "left": draw(st.sampled_from([0.0, 0.5, -1.0])), "right": draw(st.sampled_from([4.0, 3.5, 2.0])),
            "maxlen": draw(st.integers(1, 12)), "reverse": draw(st.booleans())}


def body_plug(rec, c):
    from checks import movekit as mk
    from checks.C09 import ref_traj
    from infretis.classes.path import Path

    wd = mk.Workdir()
    try:
        eng = mk.make_engine(wd, [c["script"]])
        p, fname = mk.make_path(wd, "start", [c["x0"]], 10)
        path = Path(maxlen=c["maxlen"])
        s = p.phasepoints[0].copy()
        success, _ = eng.propagate(path, {"interfaces": (c["left"], 1.0, c["right"]), "ens_name": "001"}, s, reverse=c["reverse"])
        want, ok = ref_traj(c["x0"], c["script"], c["left"], c["right"], c["maxlen"])
        got = [pp.order[0] for pp in path.phasepoints]
        rec.case(key=c, nontrivial=len(want) == c["maxlen"], classes=["plug-in", "plug-in:ends-at-maxlen" if len(want) == c["maxlen"] else "plug-in:ends-before"])
        rec.check(got == want, "plug-in:path-differs-from-scripted-trajectory", f"{got} vs {want} case={c}")
        rec.check(bool(success) == ok, "plug-in:success-flag", f"success={success}, last frame outside={ok} {got} case={c}")
        se = mk.load_scripteng()
        for k, pp in enumerate(path.phasepoints):
            fr = se.read_frames(pp.config[0])[pp.config[1]]
            rec.check(fr[0] == pp.order[0] and pp.vel_rev == c["reverse"], "plug-in:frame-reference-does-not-hold-its-order", f"frame {k}")
    finally:
        wd.close()


PARTS = {"external": (ext_cases, body), "inprocess": (inproc_cases, body), "reversibility": (rev_cases, body_rev), "forces": (force_cases, body_force), "plug-in": (plug_cases, body_plug)}


def run(ctx):
    ctx.rule = (
        "Hypothesis per engine class {LAMMPS, CP2K, GROMACS driven by fake external programs that write the real formats with a generated flush "
        "schedule / partial frames / several frames per poll / slow SIGTERM / death with exit code / per-frame varying box (LAMMPS); ASE and "
        "TurtleMD in-process (free flight); scripted plug-in}: start point = frame k of a multi-frame file with a velocity-direction flag, 2-4 atoms, "
        "order parameter in {periodic Distance (also > half a box apart), Velocity, Distancevel}, interfaces placed around the initial value "
        "(narrow to never crossed), subcycles 1-3, maxlen 2-14, both directions. Oracle: first frame = given point (positions, physical "
        "velocities); for every frame the stored order equals the one recomputed by the harness from the frame the path references (independent "
        "readers, that frame's own box and velocity direction); no frame after the first outside one, success iff the last frame is outside, "
        "else length = maxlen; no process of the run directory alive afterwards; non-zero exit without a stop request raises RuntimeError; "
        "energies E_k=f(k) sit on frame k. Reversibility: backward from frame j of a forward run retraces frames j..0. "
        "Part `forces`: ASE (spring calculator) and TurtleMD (Lennard-Jones) with 2-4 MD steps per frame against the same start with one step per frame "
        "(frame k = MD step k*s to 1e-7), and retracing with forces. External programs may be launchers with a worker child, and may die by a signal. "
        "Non-trivial: several frames per flush, varying box, velocity-dependent parameter with reverse, stop exactly at maxlen, program failure; forces: velocities of atoms 0/1 changed."
    )
    ctx.assumptions = ["real MD programs are absent: the engine loops are exercised against fake programs emitting the documented formats",
                       "reversible dynamics = free flight with elastic reflection (fakes), ASE/TurtleMD velocity Verlet without forces; tolerance 5e-6 (formats keep 9-10 decimals)"]
    run_property(ctx, "external", ext_cases, body, ctx.pick(640, 6400), shards=ctx.procs, shrink=not ctx.quick)
    run_property(ctx, "inprocess", inproc_cases, body, ctx.pick(320, 3200), shards=ctx.procs, shrink=not ctx.quick)
    run_property(ctx, "reversibility", rev_cases, body_rev, ctx.pick(160, 1600), shards=ctx.procs, shrink=not ctx.quick)
    run_property(ctx, "forces", force_cases, body_force, ctx.pick(96, 960), shards=ctx.procs, shrink=not ctx.quick)
    run_property(ctx, "plug-in", plug_cases, body_plug, ctx.pick(1500, 20000))


def replay(ctx, data):
    strat, b = PARTS[data["part"]]
    try:
        b(ctx, data["case"])
    except Violation as v:
        ctx.violation(v.signature, v.message, data)
