"""C01 - sampling is unbiased: exact crossing probabilities of the lattice walk are reproduced."""

import itertools
import os

import numpy as np

from vlib import simdrv
from vlib.cli import Rec
from vlib.hyp import derive_seed, pmap
from vlib.oracles import wfweight as wfref
from vlib.oracles.stats import jackknife_ratio

R = 32  # replicas per configuration
ZMAX = 6.0


def exact(k):
    return (k + 1) / (k + 2)


def live_weight(orders, k, n, moves, cap):
    """Weight of a live path in ensemble [k+] (column k+1), from the reference implementation."""
    lam = k + 0.5
    if moves[k + 1] == "sh":
        return 1.0 if max(orders) >= lam else 0.0
    right = cap if cap is not None else n - 0.5
    w = wfref.wf_weight(orders, lam, right)
    end_right = orders[-1] >= right
    return float(w * (2 if end_right else 1))


def replica(job):
    """One replica: a history on the lattice engine; returns per-ensemble sums from the files only."""
    conf, seed, nsteps = job
    n = conf["n"]
    spec = simdrv.lattice_spec(n=n, moves=conf["moves"], workers=conf["W"], steps=nsteps, seed=seed, cap=conf.get("cap"), origin=conf.get("origin", 0.0),
                               wall=conf.get("wall", -1), n_jumps=conf.get("n_jumps", 2), maxlength=conf.get("maxlength", 2000),
                               delete_old=True, delete_old_all=True)
    # restart plan
    plan = conf.get("plan", "none")
    rng = np.random.default_rng(seed)
    segs = []
    if plan == "none":
        segs = [{"steps": nsteps, "policy": conf.get("policy", "random"), "policy_seed": seed}]
    else:
        pts = sorted(set(int(x) for x in rng.integers(nsteps // 8, nsteps - conf["W"], size=conf.get("nrestarts", 3))))
        prev = 0
        for p in pts:
            seg = {"steps": nsteps, "policy": conf.get("policy", "random"), "policy_seed": seed + p}
            if plan == "kill":
                seg["kill_after"] = p - prev
            else:
                seg["steps"] = p
            segs.append(seg)
            prev = p
        segs.append({"steps": nsteps, "policy": conf.get("policy", "random"), "policy_seed": seed + 1})
    h = simdrv.run_history(spec, segs, {}, keep=True, timeout=3600)
    d = h["rundir"]
    out = {"num": [0.0] * (n - 1), "den": [0.0] * (n - 1), "npaths": [0] * (n - 1), "ncross": [0] * (n - 1), "err": None,
           "acc": 0, "rej": 0, "zswap": 0, "steps": 0, "restarts": len(segs) - 1}
    try:
        for r in h["results"]:
            if r.get("exc"):
                out["err"] = str(r["exc"][:3])
                return out
            out["acc"] += r["stats"].get("accepted", 0)
            out["rej"] += r["stats"].get("rejected", 0)
            out["zswap"] += r["stats"].get("zero_swap_jobs", 0)
            out["steps"] += r.get("treat_count", 0)
        cfg = simdrv.read_restart(d)
        rows = simdrv.parse_data_file(os.path.join(d, "infretis_data.txt"), n)
        for row in rows:
            for k in range(n - 1):
                f, w = row["frac"][k + 1], row["weight"][k + 1]
                if f > 0 and w > 0:
                    out["den"][k] += f / w
                    out["npaths"][k] += 1
                    if row["maxop"] + conf.get("origin", 0.0) > k + 1.5:
                        out["num"][k] += f / w
                        out["ncross"][k] += 1
        # live paths: fractions from the restart file, order sequence from their stored order.txt
        for pn, fr in cfg["current"]["frac"].items():
            op = os.path.join(d, "load", pn, "order.txt")
            orders = [float(l.split()[1]) + conf.get("origin", 0.0) for l in open(op) if not l.startswith("#")]
            for k in range(n - 1):
                f = float(fr[k + 1])
                if f > 0:
                    w = live_weight(orders, k, n, conf["moves"], conf.get("cap"))
                    if w > 0:
                        out["den"][k] += f / w
                        out["npaths"][k] += 1
                        if max(orders) > k + 1.5:
                            out["num"][k] += f / w
                            out["ncross"][k] += 1
        return out
    finally:
        simdrv.isolate.rmscratch(d)


def evaluate(ctx, conf, nsteps, tag):
    seeds = [derive_seed(ctx.seed, "C01", tag, conf["name"], i) % (2**32) for i in range(R)]
    res = pmap(ctx, replica, [(conf, s, nsteps) for s in seeds])
    errs = [r["err"] for r in res if r["err"]]
    if errs:
        return {"error": errs[0]}
    n = conf["n"]
    out = {"z": [], "p": [], "se": [], "inconclusive": [], "nt_replicas": 0, "steps": sum(r["steps"] for r in res)}
    for k in range(n - 1):
        nums = [r["num"][k] for r in res]
        dens = [r["den"][k] for r in res]
        p, se = jackknife_ratio(nums, dens)
        small = sum(dens) < 200 or sum(r["ncross"][k] for r in res) < 20
        out["inconclusive"].append(bool(small))
        out["p"].append(p)
        out["se"].append(se)
        out["z"].append((p - exact(k)) / se if se > 0 else 0.0)
    for r, s in zip(res, seeds):
        nt = all(x >= 50 for x in r["npaths"]) and r["zswap"] >= 1 and r["rej"] >= 1 and r["acc"] >= 1
        if nt:
            out["nt_replicas"] += 1
            ctx.case(key=[conf["name"], tag, s], nontrivial=True, n=0)
    ctx.case(key=None, n=R, classes=[f"config:{conf['name']}"])
    return out


def configs(ctx):
    quick = [
        {"name": "sh-n4-W1", "n": 4, "moves": ["sh"] * 4, "W": 1},
        {"name": "mixed-n5-W2", "n": 5, "moves": ["sh", "sh", "wf", "sh", "wf"], "W": 2, "n_jumps": 3, "policy": "straggler"},
        {"name": "wf-cap-n5-W3-kills", "n": 5, "moves": ["sh", "wf", "wf", "wf", "sh"], "W": 3, "cap": 3.5, "plan": "kill", "nrestarts": 3, "n_jumps": 2, "wall": -2},
        {"name": "shwf-n4-W2-restarts", "n": 4, "moves": ["sh", "sh", "wf", "wf"], "W": 2, "plan": "clean", "nrestarts": 4, "n_jumps": 6, "policy": "newest"},
        # the same kind of system translated so that the cap sits on 0.0 and the interfaces straddle zero
        {"name": "wf-cap-at-zero-n5-W2", "n": 5, "moves": ["sh", "sh", "wf", "wf", "sh"], "W": 2, "cap": 3.5, "origin": 3.5, "n_jumps": 2, "plan": "clean", "nrestarts": 2},
    ]
    if ctx.quick:
        return quick
    out = list(quick)
    for combo in itertools.product(["sh", "wf"], repeat=3):  # all {sh,wf}^3 for n=4
        out.append({"name": "n4-" + "".join(c[0] for c in combo), "n": 4, "moves": ["sh"] + list(combo), "W": 1 + (hash(combo) % 3 if False else len([c for c in combo if c == 'wf']) % 3), "n_jumps": 2})
    rng = np.random.default_rng(derive_seed(ctx.seed, "C01-configs"))
    while len(out) < 28:
        n = int(rng.integers(3, 7))
        moves = ["sh"] + [str(rng.choice(["sh", "wf"])) for _ in range(n - 1)]
        wf = [j for j in range(1, n) if moves[j] == "wf"]
        cap = None
        if wf and rng.random() < 0.5:
            cap = float(rng.integers(max(wf), n)) + 0.5
            if cap > n - 0.5:
                cap = None
        out.append({"name": f"gen{len(out)}", "n": n, "moves": moves, "W": int(rng.integers(1, n)), "cap": cap,
                    "origin": float(rng.choice([0.0, 0.0, cap if cap is not None else 0.5, 0.5, float(n)])),
                    "wall": int(rng.choice([-1, -2, -4])), "n_jumps": int(rng.choice([1, 2, 3, 6])),
                    "plan": str(rng.choice(["none", "clean", "kill"])), "nrestarts": int(rng.integers(1, 5)),
                    "policy": str(rng.choice(["random", "oldest", "newest", "straggler"]))})
    return out


def run(ctx):
    ctx.rule = (
        "Each configuration (interfaces k+1/2 on the integer lattice walk; move assignment, cap, worker count, completion-order policy, "
        "restart plan: none / clean stops / kills with jobs in flight) is run as 32 independent replicas through the real scheduler, "
        "run_md, PathStorage and the lattice plug-in engine. From each replica's data file and restart file only: "
        "p_k = sum (f/w) 1[maxOP > lambda_{k+1}] / sum (f/w); pooled ratio of sums, delete-one-replica jackknife SE; accepted iff "
        "|p - (k+1)/(k+2)| <= 6 SE; a failing comparison is re-tested once with fresh seeds and doubled length and only a second failure "
        "with the same sign is a violation; ensembles with sum f/w < 200 or < 20 crossing paths are inconclusive (counted). "
        "Non-trivial replica: every ensemble collected weight from >= 50 paths and the run had >= 1 zero-swap job, acceptance and rejection. "
        "Distinct = (configuration, seed)."
    )
    ctx.assumptions = ["statistical: biases below the resolution reported in 'resolution' are not detected"]
    nsteps = ctx.pick(1500, 5000)
    table = []
    for conf in configs(ctx):
        ev = evaluate(ctx, conf, nsteps, "first")
        if "error" in ev:
            ctx.violation("C01:run-aborted", f"{conf['name']}: {ev['error']}", {"part": "config", "conf": conf, "nsteps": nsteps})
            continue
        row = {"config": conf["name"], "moves": conf["moves"], "W": conf["W"], "cap": conf.get("cap"), "plan": conf.get("plan", "none"),
               "steps": ev["steps"], "p": [round(x, 4) for x in ev["p"]], "exact": [round(exact(k), 4) for k in range(conf["n"] - 1)],
               "se": [round(x, 4) for x in ev["se"]], "z": [round(x, 2) for x in ev["z"]], "nontrivial_replicas": ev["nt_replicas"]}
        bad = [k for k in range(conf["n"] - 1) if abs(ev["z"][k]) > ZMAX and not ev["inconclusive"][k]]
        if any(ev["inconclusive"]):
            ctx.cls("inconclusive-ensembles", sum(ev["inconclusive"]))
        if bad:
            ctx.cls("retests")
            ev2 = evaluate(ctx, conf, 2 * nsteps, "retest")
            row["retest_z"] = [round(x, 2) for x in ev2.get("z", [])]
            for k in bad:
                if "error" in ev2 or (abs(ev2["z"][k]) > ZMAX and np.sign(ev2["z"][k]) == np.sign(ev["z"][k])):
                    ctx.violation(
                        f"C01:crossing-probability-off:{conf['name']}",
                        f"ensemble [{k}+]: p={ev['p'][k]:.4f} (z={ev['z'][k]:.1f}), retest p={ev2['p'][k]:.4f} (z={ev2['z'][k]:.1f}), exact {exact(k):.4f}; config {conf}",
                        {"part": "config", "conf": conf, "nsteps": nsteps},
                    )
        table.append(row)
        if len(ctx.samples) < 6:
            ctx.samples.append(row)
    ctx.note("results", table)
    ctx.note("max_abs_z", max([abs(z) for r in table for z in r["z"]] or [0]))
    ctx.note("resolution", "6 x SE per comparison; see 'se' in results (quick ~0.005-0.012)")


def replay(ctx, data):
    conf, nsteps = data["conf"], data["nsteps"]
    ev = evaluate(ctx, conf, nsteps, "replay")
    if "error" in ev:
        ctx.violation("C01:run-aborted", ev["error"], data)
        return
    bad = [k for k in range(conf["n"] - 1) if abs(ev["z"][k]) > ZMAX and not ev["inconclusive"][k]]
    if bad:
        ev2 = evaluate(ctx, conf, 2 * nsteps, "replay2")
        for k in bad:
            if abs(ev2["z"][k]) > ZMAX and np.sign(ev2["z"][k]) == np.sign(ev["z"][k]):
                ctx.violation(f"C01:crossing-probability-off:{conf['name']}", f"[{k}+] z={ev['z'][k]:.1f}/{ev2['z'][k]:.1f}", data)
