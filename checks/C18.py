"""C18 - invalid configurations are rejected up front; accepted ones initialise."""

import copy
import os

from hypothesis import strategies as st

from vlib import isolate, simdrv
from vlib.cli import Violation
from vlib.hyp import run_property

GRID = [-1.5, -0.5, 0.5, 1.5, 2.5, 3.5, 4.5, 5.5]


def has_lm1(c):
    """lambda_-1 configured (0.0 and 0 are values like any other; `0.0 in ("absent", False)` is True in Python)."""
    return not (isinstance(c["lm1"], str) or c["lm1"] is False)


def invalid_reasons(cfg):
    """The validity predicate transcribed from the statement. Returns the list of violated rules."""
    sim = cfg["simulation"]
    intf = sim["interfaces"]
    n = len(intf)
    moves = sim["shooting_moves"]
    ts = sim["tis_set"]
    why = []
    if n < 2:
        why.append("fewer-than-two-interfaces")
    if sorted(intf) != list(intf):
        why.append("unsorted-interfaces")
    if len(set(intf)) != n:
        why.append("duplicate-interfaces")
    if cfg["runner"]["workers"] > n - 1:
        why.append("too-many-workers")
    if len(moves) < n:
        why.append("fewer-moves-than-ensembles")
    cap = ts.get("interface_cap")
    if cap is not None and n >= 1:
        if cap > max(intf) or cap < min(intf):
            why.append("cap-outside-interfaces")
        else:
            for j in range(1, min(n, len(moves))):
                if moves[j] == "wf" and cap <= intf[j - 1]:
                    why.append("cap-leaves-wf-ensemble-no-room")
                    break
    for engs in sim.get("ensemble_engines", [["engine"]]):
        for e in engs:
            if e not in cfg:
                why.append("undefined-engine")
    lm1 = ts.get("lambda_minus_one", False)
    if lm1 is not False and n >= 1 and lm1 >= intf[0]:
        why.append("lambda_minus_one-not-below-lambda_0")
    return sorted(set(why))


@st.composite
def cfg_cases(draw):
    n = draw(st.integers(2, 6))
    start = draw(st.integers(0, len(GRID) - n))
    intf = GRID[start : start + n]
    if draw(st.booleans()):
        intf = [int(x + 0.5) if draw(st.booleans()) else x for x in intf]  # ints and floats mixed (TOML keeps the type)
    moves = ["sh"] + [draw(st.sampled_from(["sh", "wf"])) for _ in range(n - 1)]
    c = {"interfaces": list(intf), "moves": moves, "workers": draw(st.integers(1, n - 1)), "cap": None, "lm1": "absent", "ens_engs": None, "extra_sections": [],
         "seed": draw(st.sampled_from([None, 0, 5])), "quantis": False}
    # mutations: near misses and neutral variations
    for _ in range(draw(st.integers(0, 2))):
        m = draw(st.sampled_from(["swap", "dup", "short", "workers", "moves-short", "moves-long", "cap", "lm1", "engine", "engine-ok", "one-intf", "quantis"]))
        if m == "swap" and len(c["interfaces"]) >= 2:
            i = draw(st.integers(0, len(c["interfaces"]) - 2))
            c["interfaces"][i], c["interfaces"][i + 1] = c["interfaces"][i + 1], c["interfaces"][i]
        elif m == "dup" and len(c["interfaces"]) >= 2:
            i = draw(st.integers(0, len(c["interfaces"]) - 2))
            c["interfaces"][i + 1] = c["interfaces"][i]
        elif m == "short":
            c["interfaces"] = c["interfaces"][: draw(st.integers(0, 1))]
        elif m == "one-intf":
            c["interfaces"] = c["interfaces"][:2]
        elif m == "workers":
            c["workers"] = len(c["interfaces"]) - 1 + draw(st.integers(0, 2))
        elif m == "moves-short":
            c["moves"] = c["moves"][: max(0, len(c["interfaces"]) - draw(st.integers(1, 2)))]
        elif m == "moves-long":
            c["moves"] = c["moves"] + ["sh"] * draw(st.integers(1, 3))
        elif m == "cap":
            pool = sorted(set([x for x in c["interfaces"]] + [x + 0.5 for x in c["interfaces"]] + [-9.0, 99.0, 0.0]))
            c["cap"] = draw(st.sampled_from(pool))
        elif m == "lm1":
            lo = c["interfaces"][0] if c["interfaces"] else 0.0
            c["lm1"] = draw(st.sampled_from([False, lo - 1.0, lo - 0.25, lo, lo + 1.0, 0.0, 0]))
        elif m == "engine":
            k = len(c["interfaces"])
            c["ens_engs"] = [["engine"] for _ in range(k)]
            if k:
                # one ensemble names an engine without a section - alone, or after / before / between defined ones
                c["ens_engs"][draw(st.integers(0, k - 1))] = draw(st.sampled_from([["engine2"], ["nope"], ["engine", "nope"], ["nope", "engine"], ["engine", "engine", "ghost"]]))
                # the defined engines may be of a class that has consistency rules of its own (GROMACS: input_path)
                c["gmx_class"] = draw(st.sampled_from([False, False, True]))
        elif m == "engine-ok":
            k = len(c["interfaces"])
            c["ens_engs"] = [[draw(st.sampled_from(["engine", "engb"]))] for _ in range(k)]
            c["extra_sections"] = ["engb"]
        elif m == "quantis":
            c["quantis"] = True
    return c


def build_cfg(c):
    spec = simdrv.lattice_spec(n=max(2, len(c["interfaces"])), moves=c["moves"], workers=c["workers"], steps=c["workers"] + 2, seed=c["seed"] if c["seed"] is not None else 0)
    cfg = simdrv.lattice_config(spec)
    cfg["simulation"]["interfaces"] = list(c["interfaces"])
    cfg["simulation"]["shooting_moves"] = list(c["moves"])
    if c["seed"] is None:
        cfg["simulation"].pop("seed", None)
    if c["cap"] is not None:
        cfg["simulation"]["tis_set"]["interface_cap"] = c["cap"]
    if c["lm1"] != "absent":
        cfg["simulation"]["tis_set"]["lambda_minus_one"] = c["lm1"]
    if c["quantis"]:
        cfg["simulation"]["tis_set"]["quantis"] = True
        cfg["engine0"] = dict(cfg["engine"])
    if c["ens_engs"] is not None:
        cfg["simulation"]["ensemble_engines"] = c["ens_engs"]
    for s in c["extra_sections"]:
        cfg[s] = dict(cfg["engine"])
    if c.get("gmx_class") and any(e not in cfg for engs in cfg["simulation"].get("ensemble_engines", []) for e in engs):
        # (only together with an undefined engine name: such a configuration is never initialised)
        for sec in ["engine"] + list(c["extra_sections"]):
            cfg[sec] = {"class": "gromacs", "engine": "gmx", "input_path": "gromacs_input", "timestep": 0.002, "subcycles": 1, "temperature": 300, "gmx": "gmx", "gmx_format": "g96"}
    return cfg


def start_paths(c):
    """Valid initial paths for the generated interfaces on the integer lattice (None if impossible)."""
    import math

    intf = [float(x) for x in c["interfaces"]]
    lm1 = c["lm1"] if has_lm1(c) else None
    lo = math.floor(intf[0] - 1e-9)  # first integer strictly below lambda_0 ... (lambda on the half grid)
    if lo >= intf[0]:
        lo -= 1
    hi0 = lo + 1
    while hi0 <= intf[0]:
        hi0 += 1
    paths = []
    if lm1 is None:
        paths.append([hi0, lo, hi0])
    else:
        mid = lo  # must stay above lambda_-1
        if not (lm1 < mid):
            return None
        paths.append([hi0, lo, hi0])
    cap = c["cap"]
    for k in range(len(intf) - 1):
        top = lo
        while top < intf[k]:
            top += 1
        if k + 1 < len(c["moves"]) and c["moves"][k + 1] == "wf" and cap is not None and not (top < cap):
            return None
        up = list(range(lo, top + 1))
        paths.append(up + up[-2::-1])
    return paths


def _init_child(c):
    """In a fork, cwd = run dir: setup_config -> setup_internal -> first picks; then a short run and the fixed point."""
    import logging

    import tomli
    import tomli_w

    import infretis.setup as isetup
    from infretis.setup import TOMLConfigError, setup_config, setup_internal

    logging.disable(logging.CRITICAL)
    isetup.setup_logger = lambda *a, **k: None
    out = {"accepted": False, "error": None, "init": None, "fixed_point": None}
    if os.path.exists("restart_form.toml"):
        # the same (invalid) settings arriving as a restart file - what a user gets who edits restart.toml before continuing
        try:
            r = setup_config("restart_form.toml", re_inp="restart_form.toml")
            out["restart_form"] = ("accepted" if r is not None else "refused-silently", "")
        except TOMLConfigError as exc:
            out["restart_form"] = ("TOMLConfigError", str(exc))
        except Exception as exc:  # noqa: BLE001
            out["restart_form"] = (type(exc).__name__, str(exc))
    try:
        cfg = setup_config("infretis.toml")
    except TOMLConfigError as exc:
        out["error"] = ("TOMLConfigError", str(exc))
        return out
    except Exception as exc:  # noqa: BLE001
        import traceback

        out["error"] = (type(exc).__name__, str(exc), traceback.format_exc()[-1500:])
        return out
    if cfg is None:
        out["error"] = ("None", "setup_config returned None")
        return out
    out["accepted"] = True
    out["ens_engs"] = [list(e) for e in cfg["simulation"].get("ensemble_engines", [])]
    if not c.get("_paths"):
        return out
    try:
        md_items, state = setup_internal(cfg)
        n_real = state.n - 1
        diag = [state.state[i, i] != 0 for i in range(n_real)]
        picks, pick_engs = [], []
        import copy as _copy

        while state.initiate():
            w = state.prep_md_items(_copy.deepcopy(md_items))
            picks.append(list(w["ens_nums"]))
            pick_engs.append({int(e): sorted(w["picked"][e]["eng_idx"]) for e in w["ens_nums"]})
        # another simulation is set up in the same interpreter (another interface set, lambda_-1 toggled) while this one is
        # alive: this one's ensemble definitions belong to its own configuration
        def _defs(st_):
            return {int(i): ([float(x) for x in e["interfaces"]], sorted(e["start_cond"]) if not isinstance(e["start_cond"], str) else [e["start_cond"]], e["mc_move"]) for i, e in st_.ensembles.items()}

        defs_a = _defs(state)
        try:
            from infretis.classes.repex import REPEX_state

            cfg_b = _copy.deepcopy(cfg)
            cfg_b["simulation"]["interfaces"] = [x + 0.125 for x in cfg_b["simulation"]["interfaces"]]
            if cfg_b["simulation"]["tis_set"].get("lambda_minus_one") not in (None, False):
                cfg_b["simulation"]["tis_set"]["lambda_minus_one"] = False
            else:
                cfg_b["simulation"]["tis_set"]["lambda_minus_one"] = cfg_b["simulation"]["interfaces"][0] - 1.0
            cfg_b["simulation"]["shooting_moves"] = list(reversed(cfg_b["simulation"]["shooting_moves"]))
            state_b = REPEX_state(cfg_b, minus=True)
            state_b.initiate_ensembles()
            out["other_state_built"] = True
        except Exception:  # noqa: BLE001
            out["other_state_built"] = False
        out["defs_changed"] = None if _defs(state) == defs_a else {"before": defs_a[0], "after": _defs(state).get(0)}
        e0 = state.ensembles[0]
        out["init"] = {"diag": diag, "picks": picks, "workers": state.workers, "pick_engs": pick_engs,
                       "ens0": {"interfaces": [float(x) for x in e0["interfaces"]], "start_cond": sorted(e0["start_cond"]) if not isinstance(e0["start_cond"], str) else [e0["start_cond"]]},
                       "n_ensembles": len(state.ensembles)}
    except Exception as exc:  # noqa: BLE001
        import traceback

        out["init"] = {"error": (type(exc).__name__, str(exc), traceback.format_exc()[-2500:])}
    return out


def _run_child(_):
    """Fresh process: run the accepted configuration for a few steps, then check the restart fixed point."""
    import logging

    import tomli
    import tomli_w

    import infretis.scheduler as sched
    import infretis.setup as isetup
    from infretis.core import tis
    from infretis.setup import setup_config

    logging.disable(logging.CRITICAL)
    isetup.setup_logger = lambda *a, **k: None
    cfg = setup_config("infretis.toml")
    drv = simdrv.Driver(simdrv.Policy("oldest"), None, None, tis.run_md)
    sched.setup_runner = lambda state: (simdrv.FakeRunner(drv, state), simdrv.FakeFutures(drv))
    sched.scheduler(cfg)
    raw = open("restart.toml", "rb").read()
    cfg2 = setup_config("restart.toml")
    if cfg2 is None:
        return {"fixed": None, "why": "restart.toml of a finished run refused"}
    cfg2["current"].pop("restarted_from", None)
    return {"fixed": tomli_w.dumps(cfg2).encode() == raw, "cstep": cfg2["current"]["cstep"]}


def body(rec, c):
    import tomli_w

    cfg = build_cfg(c)
    why = invalid_reasons(cfg)
    d = isolate.mkscratch("cfg_")
    try:
        with open(os.path.join(d, "infretis.toml"), "wb") as fh:
            tomli_w.dump(cfg, fh)
        import shutil

        shutil.copy(os.path.join(simdrv.HERE, "engines", "latticeeng.py"), os.path.join(d, "latticeeng.py"))
        paths = None
        if not why and len(c["interfaces"]) >= 2:
            paths = start_paths(c)
            if paths:
                for i, orders in enumerate(paths):
                    simdrv.write_load_path(os.path.join(d, "load"), i, orders)
        if why:
            size = len(cfg["simulation"]["interfaces"])
            rcfg = dict(cfg, current={"traj_num": size + 3, "cstep": 3, "active": list(range(size)), "locked": [], "size": size, "frac": {}})
            with open(os.path.join(d, "restart_form.toml"), "wb") as fh:
                tomli_w.dump(rcfg, fh)
            for i in range(size):
                os.makedirs(os.path.join(d, cfg["simulation"].get("load_dir", "load"), str(i)), exist_ok=True)
                with open(os.path.join(d, cfg["simulation"].get("load_dir", "load"), str(i), "traj.txt"), "w") as fh:
                    fh.write("# placeholder\n")
        cc = dict(c)
        cc["_paths"] = bool(paths)
        res = isolate.run_in_fork(_init_child, (cc,), cwd=d, timeout=120)
        one = len(why) == 1
        rec.case(key=c, nontrivial=one or (not why and bool(paths)), classes=["cfg", "cfg:valid" if not why else "cfg:invalid", *[f"rule:{w}" for w in why]] + (["cfg:near-miss"] if one else []),
                 sample={"case": c, "violated_rules": why, "outcome": "accepted" if res["accepted"] else res["error"][0]} if one and len(rec.samples) < 3 else None)
        info = f"violated={why} case={c}"
        if why:
            if res["accepted"]:
                rec.check(False, f"config:invalid-configuration-accepted:{why[0]}", info)
            elif res["error"][0] != "TOMLConfigError":
                rec.check(False, f"config:invalid-configuration-not-a-config-error:{why[0]}:{res['error'][0]}", f"{res['error'][1]} {info}")
            rf = res.get("restart_form")
            if rf:
                rec.cls("cfg:invalid-settings-in-a-restart-file")
                rec.check(rf[0] == "TOMLConfigError", f"config:invalid-configuration-accepted-in-a-restart-file:{why[0]}:{rf[0]}", f"{rf[1]} {info}")
            return
        if not res["accepted"]:
            if res["error"][0] != "TOMLConfigError":
                rec.check(False, f"config:valid-configuration-raises:{res['error'][0]}", f"{res['error'][1]} {info}")
            rec.cls("cfg:valid-by-the-statement-but-rejected(allowed)")
            return
        if c["quantis"] and c["ens_engs"] is None and res.get("ens_engs"):
            # QuanTIS without an explicit layout: [0-] runs on its own engine section (engine0), all other ensembles on `engine`
            rec.cls("cfg:quantis-default-layout")
            rec.check(res["ens_engs"][0] == ["engine0"] and all(e == ["engine"] for e in res["ens_engs"][1:]), "config:quantis-default-engine-layout", f"{res['ens_engs']} {info}")
        if c["ens_engs"] is not None:
            # an explicit engine layout is what the ensembles are initialised with
            rec.cls("cfg:explicit-engine-layout")
            rec.check(res.get("ens_engs") == c["ens_engs"], "config:explicit-engine-layout-changed-by-normalisation", f"configured {c['ens_engs']}, after setup_config {res.get('ens_engs')} {info}")
        if not paths:
            rec.cls("cfg:accepted-no-start-paths-constructed")
            return
        init = res["init"]
        if "error" in init:
            rec.check(False, f"config:accepted-configuration-fails-to-initialise:{init['error'][0]}", f"{init['error'][1]}\n{init['error'][2][-800:]}\n{info}")
            return
        rec.check(all(init["diag"]), "config:loaded-path-has-zero-weight-in-its-ensemble", f"{init['diag']} {info}")
        if res.get("other_state_built"):
            rec.cls("cfg:another-simulation-set-up-in-the-same-interpreter")
            rec.check(res.get("defs_changed") is None, "config:ensemble-definitions-change-when-another-simulation-is-set-up", f"[0-] {res.get('defs_changed')} {info}")
        rec.check(len(init["picks"]) == c["workers"], "config:first-picks", f"{init['picks']} workers {c['workers']}")
        # the [0-] ensemble: with lambda_-1 (whatever its value, 0.0 included) it lives between lambda_-1 and lambda_0 and its paths
        # may start on either side; without it, it is open to the left and paths start on the right
        lm1 = c["lm1"] if has_lm1(c) else None
        l0 = float(c["interfaces"][0])
        e0 = init["ens0"]
        if lm1 is not None:
            rec.cls("cfg:lambda_minus_one")
            rec.check(e0["interfaces"][0] == float(lm1) and e0["interfaces"][2] == l0 and sorted(e0["start_cond"]) == ["L", "R"], "config:[0-]-ensemble-not-set-up-for-lambda_minus_one",
                      f"interfaces {e0['interfaces']} start_cond {e0['start_cond']} lambda_-1 {lm1!r} {info}")
        else:
            rec.check(e0["interfaces"][0] == float("-inf") and e0["interfaces"][2] == l0 and e0["start_cond"] == ["R"], "config:[0-]-ensemble-wrong", f"{e0} {info}")
        rec.check(init["n_ensembles"] == len(c["interfaces"]), "config:number-of-ensembles", f"{init['n_ensembles']} vs {len(c['interfaces'])} interfaces")
        if c["ens_engs"] is not None:
            for pe in init["pick_engs"]:
                for e, engs in pe.items():
                    rec.check(engs == sorted(set(c["ens_engs"][e + 1])), "config:first-pick-uses-engines-not-configured-for-its-ensemble", f"ensemble {e}: {engs} vs configured {c['ens_engs'][e + 1]} {info}")
        rec.cls("cfg:initialised")
        if c["quantis"] or has_lm1(c):
            return  # the lattice plug-in carries no energies for QuanTIS; lambda_-1 runs are exercised in C09/C11
        try:
            r2 = isolate.run_in_fork(_run_child, (0,), cwd=d, timeout=300, kwargs={"_return_exc": True})
        except isolate.ChildTimeout:
            rec.check(False, "config:accepted-configuration-run-hangs", info)
            return
        if isinstance(r2, tuple) and r2[0] == "exc":
            rec.check(False, f"config:accepted-configuration-fails-to-run:{r2[1]}", f"{r2[3]}\n{r2[2][-1200:]}\n{info}")
            return
        rec.cls("cfg:fixed-point-checked")
        rec.check(r2["fixed"] is True, "config:restart-file-not-a-fixed-point-of-normalisation", f"{r2} {info}")
    finally:
        isolate.rmscratch(d)


def run(ctx):
    ctx.rule = (
        "Hypothesis: start from a valid lattice configuration (2-6 interfaces on a half-integer grid, ints/floats mixed, sh/wf moves, workers "
        "1..n-1) and apply 0-2 mutations out of {swap two interfaces, duplicate one, cut to 0/1/2 interfaces, workers around n-1, moves shorter/"
        "longer, cap from {interfaces, between them, below, above, 0.0}, lambda_-1 from {False, below, equal, above lambda_0, 0}, undefined / "
        "additional engine sections, quantis}. Oracle: the validity predicate transcribed from the statement; invalid => TOMLConfigError from "
        "setup_config (any other exception or acceptance is a violation); accepted => in a fork with constructed valid start paths "
        "setup_internal succeeds, loaded paths have non-zero diagonal, all W first picks succeed, a short run completes and setup_config on "
        "the restart file it wrote re-dumps byte-identically (minus restarted_from). Non-trivial: exactly one rule violated (near miss) or a "
        "valid configuration that was initialised. Distinct = digest of the case."
    )
    ctx.assumptions = ["a configuration that is valid by the statement may still be rejected for reasons the statement does not list (e.g. quantis with lambda_-1); only acceptance of invalid ones and failure of accepted ones are violations"]
    run_property(ctx, "config", cfg_cases, body, ctx.pick(1500, 20000), shards=ctx.procs)


def replay(ctx, data):
    try:
        body(ctx, data["case"])
    except Violation as v:
        ctx.violation(v.signature, v.message, data)
