"""C08 - a crash at any point leaves a restartable, consistent state (fault enumeration)."""

import os
import re

import numpy as np

from checks import hist
from vlib import isolate, simdrv
from vlib.cli import Rec, digest
from vlib.hyp import derive_seed, pmap

KINDS = ["sh-accept", "wf-accept", "reject", "swap-accept", "swap-reject", "accept-with-deletion"]


def fclass(rel):
    b = os.path.basename(rel)
    if b == "restart.toml.tmp":
        return "restart.toml.tmp"
    if b in ("restart.toml", "order.txt", "energy.txt", "traj.txt"):
        return b
    if b.startswith("infretis_data"):
        return "data-file"
    if b.endswith(".lat"):
        return "trajectory-file"
    if b == "accepted" or re.fullmatch(r"\d+", b):
        return "path-dir"
    if b.startswith("worker"):
        return "worker-dir"
    return "other"


def child(seg, flags):
    return simdrv._segment_child(seg, flags, {})


def run_plain(d, seg, flags=None, timeout=300):
    return isolate.run_in_fork(child, (seg, flags or {}), cwd=d, timeout=timeout)


def scenario_specs(ctx):
    """Generated scenarios: configuration + total steps. (deterministic in VERIF_SEED)"""
    rng = np.random.default_rng(derive_seed(ctx.seed, "C08-scen"))
    out = []
    nscen = ctx.pick(6, 40)
    for k in range(nscen):
        n = int(rng.integers(3, 6))
        W = [1, 1, 2, 3][k % 4]
        W = min(W, n - 1)
        moves = ["sh"] + [str(rng.choice(["sh", "wf"])) for _ in range(n - 1)]
        dl = ["all", "on", "all", "off"][k % 4]
        spec = simdrv.lattice_spec(n=n, moves=moves, workers=W, steps=0, seed=int(rng.integers(0, 2**31)), wall=int(rng.choice([-1, -2])),
                                   n_jumps=int(rng.choice([1, 2])), maxlength=int(rng.choice([30, 300])), delete_old=dl != "off", delete_old_all=dl == "all",
                                   zeroswap=float(rng.choice([0.5, 1.0])))
        if k % 5 == 3:  # lambda_-1 variant of [0-]
            spec["lm1"], spec["wall"] = -1.5, -4
        if k % 2 == 1:  # translated copy of the system (lambda_0 or lambda_-1 on 0.0)
            spec["origin"] = spec["lm1"] if spec.get("lm1") is not None else 0.5
        out.append({"spec": spec, "N": int(rng.integers(22, 34)), "policy": str(rng.choice(["oldest", "random", "newest"])), "pseed": int(rng.integers(0, 999)),
                    "after_restart": bool(k % 3 == 2)})
    return out


def seg_of(sc, steps, **kw):
    seg = {"steps": steps, "policy": sc["policy"], "policy_seed": sc["pseed"]}
    if sc["spec"]["zeroswap"] is not None:
        seg["zeroswap"] = sc["spec"]["zeroswap"]
    seg.update(kw)
    return seg


def prepare(sc):
    """Fresh run directory in the state from which the target lifetime starts. Returns (dir, restart?)"""
    spec = dict(sc["spec"])
    spec["steps"] = sc["N"]
    d = simdrv.make_rundir(spec)
    if sc["after_restart"]:
        # an earlier lifetime, killed with jobs in flight: the target step then happens in a restarted run
        k0 = max(2, sc["N"] // 3)
        try:
            run_plain(d, seg_of(sc, sc["N"], kill_after=k0))
        except Exception:  # noqa: BLE001
            pass
        return d, True
    return d, False


def classify_steps(trace, stats_deletion_steps):
    """treat events of a lifetime -> {kind: treat index (1-based)}"""
    kinds = {}
    t = 0
    prep = {}
    for ev in trace:
        if ev[0] == "prep":
            prep[ev[1]] = ev[2]
        elif ev[0] == "treat":
            t += 1
            ens = prep.get(ev[1], ())
            acc = ev[2] == "ACC"
            if len(ens) == 2:
                k = "swap-accept" if acc else "swap-reject"
            elif acc:
                k = "sh-accept"
            else:
                k = "reject"
            if t >= 3:
                kinds.setdefault(k, t)
    return kinds


def plan_scenario(job):
    """Dry runs: find target steps of each kind and their effect lists. Returns list of crash jobs."""
    pid, sc, seed, quick = job
    rec = Rec(pid)
    jobs = []
    d, restarted = prepare(sc)
    try:
        r0 = run_plain(d, seg_of(sc, sc["N"], restart=restarted))
    except Exception as exc:  # noqa: BLE001
        rec.error(f"plan: plain run failed: {exc!r} scenario={sc}")
        isolate.rmscratch(d)
        return rec, jobs
    isolate.rmscratch(d)
    if restarted and (r0.get("config_none") or (r0.get("exc") and r0["exc"][0] == "setup_config")):
        # the scenario starts from a run that was killed between steps (no crash inside a step yet): it must be restartable
        rec.case(key=["plan", digest(sc)], nontrivial=True, classes=["plan:restart-after-kill-between-steps"])
        rec.violation("C08:restart-after-a-kill-between-steps-refused", f"setup_config: {'returned None' if r0.get('config_none') else r0['exc'][1:3]}; scenario={sc}",
                      {"part": "plan", "scenario": sc})
        return rec, jobs
    if r0.get("exc"):
        rec.error(f"plan: plain run raised {r0['exc'][:3]} scenario={sc}")
        return rec, jobs
    kinds = classify_steps(r0["trace"], None)
    moves = sc["spec"]["moves"]
    # wf-accept: an accepted single-ensemble step in a wf ensemble; deletion: the last accepted step (queue is full by then)
    t = 0
    prep = {}
    last_acc = None
    for ev in r0["trace"]:
        if ev[0] == "prep":
            prep[ev[1]] = ev[2]
        elif ev[0] == "treat":
            t += 1
            ens = prep.get(ev[1], ())
            if ev[2] == "ACC" and len(ens) == 1 and ens[0] >= 0 and moves[ens[0] + 1] == "wf" and t >= 3:
                kinds.setdefault("wf-accept", t)
            if ev[2] == "ACC" and t >= 3:
                last_acc = t
    if sc["spec"]["delete_old"] and last_acc:
        kinds["accept-with-deletion"] = last_acc
    if sc["spec"]["workers"] >= 2 and t >= 4:
        # a step so close to the end that the jobs in flight cover all the steps that are left
        kinds["step-before-the-last"] = t - 1
    # what the restart record must list after each completed step of this lifetime: the jobs handed out before that step's result
    # was treated and not yet treated themselves (the job picked after it is not recorded: it is re-drawn from the restored stream)
    snap, cur, tt = {}, {}, 0
    for ev in r0["trace"]:
        if ev[0] == "prep":
            cur[ev[1]] = [[int(e) for e in ev[2]], [str(p) for p in ev[3]]]
        elif ev[0] == "treat":
            tt += 1
            cur.pop(ev[1], None)
            snap[tt] = [list(v) for v in cur.values()]
    for kind, target in sorted(kinds.items()):
        sc = dict(sc, _inflight={str(k): snap[k] for k in (target - 1, target) if k in snap}, _cstep0=r0.get("cstep_start"))
        d, restarted = prepare(sc)
        try:
            r = run_plain(d, seg_of(sc, sc["N"], restart=restarted, fault={"target": target, "crash_at": None, "phase": "treat"}))
        finally:
            isolate.rmscratch(d)
        log = r.get("fault_log", [])
        if kind == "accept-with-deletion" and not any(e[1] in ("remove", "rmdir") for e in log):
            continue
        for (i, ekind, rel, size) in log:
            if ekind == "commit":
                cuts = sorted({0, 1, size // 2, max(0, size - 1)}) if size and size > 1 else [0]
                if quick and len(cuts) > 3:
                    cuts = [cuts[0], cuts[2], cuts[3]]
                for cut in cuts:
                    jobs.append((pid, sc, kind, target, restarted, i, ekind, rel, cut, size, len(log)))
            else:
                jobs.append((pid, sc, kind, target, restarted, i, ekind, rel, 0, size, len(log)))
        rec.note(f"effects:{kind}", [len(log)])
    return rec, jobs


def crash_job(job):
    pid, sc, kind, target, restarted, idx, ekind, rel, cut, size, nlog = job[:11]
    second = job[11] if len(job) > 11 else None
    rec = Rec(pid)
    W, n = sc["spec"]["workers"], sc["spec"]["n"]
    where = f"{ekind}:{fclass(rel)}"
    key = [digest(sc), kind, idx, cut, second]
    inside = 0 < idx < nlog - 1
    cutclass = "" if ekind != "commit" else (":empty" if cut == 0 else (":all-but-one-byte" if size and cut == size - 1 else ":prefix"))
    rec.case(key=key, nontrivial=inside, classes=["crash", f"step:{kind}", f"effect:{where}{cutclass}", f"workers={W}", "after-earlier-restart" if restarted else "first-lifetime"]
             + (["second-crash-while-the-restart-is-prepared" if isinstance(second, str) else "second-crash-in-recovery"] if second else []),
             sample={"scenario": {k: sc["spec"][k] for k in ("n", "moves", "workers", "delete_old", "delete_old_all", "seed")}, "step_kind": kind, "target_step": target,
                     "crash_before_effect": idx, "effect": where, "bytes_on_disk": cut if ekind == "commit" else None} if len(rec.samples) < 2 and inside else None)
    d, _ = prepare(sc)
    replay = {"part": "crash", "job": list(job[1:])}
    try:
        crashed = False
        try:
            run_plain(d, seg_of(sc, sc["N"], restart=restarted, fault={"target": target, "crash_at": idx, "cut": cut, "phase": "treat"}))
        except isolate.ChildCrashed:
            crashed = True
        if not crashed:
            rec.error(f"crash point {idx} of step {target} was not reached (non-deterministic effect list?) {job[2:10]}")
            return rec
        locked_on_disk = None
        try:
            cfg = simdrv.read_restart(d)
            locked_on_disk = [(tuple(x - 1 for x in l[0]), tuple(l[1])) for l in cfg["current"].get("locked", [])]
            cstep_disk = cfg["current"]["cstep"]
        except Exception:  # noqa: BLE001
            cfg, cstep_disk = None, None
        # every step before the one that was cut short has left its restart file: the file on disk is the one of the
        # previous step or (crash after the replace) of this step
        if sc.get("_cstep0") is not None and cstep_disk is not None and (cstep_disk - sc["_cstep0"]) not in (target - 1, target):
            rec.violation(f"C08:restart-file-older-than-the-last-completed-step@{where}", f"crash in step {sc['_cstep0'] + target} of the run, restart file is of step {cstep_disk}", replay)
        # the record on disk lists exactly the jobs that were in flight when that file was written
        if locked_on_disk is not None and sc.get("_inflight") and sc.get("_cstep0") is not None and cstep_disk is not None:
            exp = sc["_inflight"].get(str(cstep_disk - sc["_cstep0"]))
            if exp is not None:
                want = sorted((tuple(int(e) for e in e_), tuple(str(p) for p in p_)) for e_, p_ in exp)
                if sorted(locked_on_disk) != want:
                    rec.violation(f"C08:restart-record-differs-from-the-jobs-in-flight@{where}", f"restart file of step {cstep_disk} lists {sorted(locked_on_disk)}, in flight were {want}", replay)
        # ---- recovery (optionally crashing again at its first completed step)
        # the recovery runs on to more steps than the killed run was asked for - or, for a crash close to the end, to just
        # those (the jobs in flight then cover all the steps that are left)
        N2 = sc["N"] if kind == "step-before-the-last" else sc["N"] + W + 3
        if second is not None:
            try:
                if isinstance(second, str):  # "setup:<k>:<cut>": die while the restart is being prepared (repair of the data file)
                    _, k2, cut2 = second.split(":")
                    run_plain(d, seg_of(sc, N2, restart=True, fault={"target": 0, "crash_at": int(k2), "cut": int(cut2), "phase": "setup"}))
                else:
                    run_plain(d, seg_of(sc, N2, restart=True, fault={"target": 1, "crash_at": second, "cut": 0, "phase": "treat"}))
            except isolate.ChildCrashed:
                pass
            except Exception:  # noqa: BLE001
                pass
        flags = {"C05": 1, "C04": 1, "C14": 1}
        try:
            res = run_plain(d, seg_of(sc, N2, restart=True), flags)
        except isolate.ChildTimeout:
            rec.violation(f"C08:recovery-hangs@{where}", f"{job[2:10]}", replay)
            return rec
        if res.get("config_none"):
            rec.violation(f"C08:restart-refused@{where}{cutclass}", f"setup_config returned None after a crash before effect {idx} ({rel}) of a {kind} step; cstep on disk {cstep_disk}", replay)
            return rec
        if res.get("exc"):
            tb = res["exc"][3] if len(res["exc"]) > 3 else ""
            site = hist.frames(tb)
            early = res.get("prep_count", 0) == 0
            sig = f"C08:{'restart-does-not-start' if early else 'continuation-dies'}:{res['exc'][1]}:{site}@{where}{cutclass}"
            rec.violation(sig, f"{res['exc'][0]}: {res['exc'][2][:300]} -- crash before effect {idx} ({rel}, {cut} bytes) of a {kind} step, W={W}", replay)
            return rec
        for s, m in res["viol"]:
            rec.violation(f"C08:after-recovery:{s}@{where}{cutclass}", f"{m} -- crash before effect {idx} ({rel}) of a {kind} step", replay)
        # (4) recorded in-flight jobs are re-issued
        if locked_on_disk is not None and second is None:
            issued = [(tuple(i[0]), tuple(i[1])) for i in res.get("issued_all", [])[: len(locked_on_disk)]]
            if sorted(issued) != sorted(locked_on_disk):
                rec.violation(f"C08:recorded-in-flight-jobs-not-reissued@{where}", f"recorded {locked_on_disk}, issued {issued}", replay)
        # (3) after continuing: every replaced path exactly once in the data file, live paths never; weights conserved
        cfg2 = simdrv.read_restart(d)
        rows = simdrv.parse_data_file(os.path.join(d, "infretis_data.txt"), n)
        pns = [r["pn"] for r in rows]
        dup = sorted({p for p in pns if pns.count(p) > 1})
        if dup:
            rec.violation(f"C08:replaced-path-written-twice@{where}{cutclass}", f"paths {dup} appear twice in the data file -- crash before effect {idx} ({rel}) of a {kind} step", replay)
        live = cfg2["current"]["active"]
        if set(live) & set(pns):
            rec.violation(f"C08:live-path-in-data-file@{where}{cutclass}", f"{sorted(set(live) & set(pns))}", replay)
        missing = [p for p in range(cfg2["current"]["traj_num"]) if p not in pns and p not in live]
        if missing:
            rec.violation(f"C08:replaced-path-missing-from-data-file@{where}{cutclass}", f"paths {missing} neither live nor in the data file", replay)
        if W == 1 and not dup:
            tot = [0.0] * n
            for r in rows:
                for c in range(n):
                    tot[c] += r["frac"][c]
            for pn, fr in cfg2["current"]["frac"].items():
                for c in range(n):
                    tot[c] += float(fr[c])
            cs = cfg2["current"]["cstep"]
            if any(abs(t - cs) > 1e-9 * cs for t in tot):
                rec.violation(f"C08:weights-not-conserved-across-the-crash@{where}{cutclass}", f"column sums {tot} vs cstep {cs}", replay)
        # (a planned second crash point that the recovery run's first step never reaches lets that run finish; the final
        #  continuation then has nothing left to do and builds no state: the step counter is read from the restart file)
        reached = res.get("cstep_end") if res.get("cstep_end") is not None else cfg2["current"]["cstep"]
        if reached != N2:
            rec.violation(f"C08:continuation-did-not-reach-the-requested-steps@{where}", f"{reached} != {N2}", replay)
        elif res.get("cstep_start") is not None and res.get("treat_count") is not None and res["treat_count"] != N2 - res["cstep_start"]:
            rec.violation(f"C08:steps-counted-without-a-completed-move@{where}", f"the continuation went from step {res['cstep_start']} to {N2} with {res['treat_count']} completed moves", replay)
    finally:
        isolate.rmscratch(d)
    return rec


def run(ctx):
    ctx.level = "fault_enumeration"
    ctx.rule = (
        "Scenarios (generated lattice configurations: 3-5 interfaces, sh/wf, 1-3 workers, delete_old off/on/all, zero-swap probability, "
        "completion policy; a third of them already restarted once after a kill with jobs in flight) are run to find one target step of each "
        "kind {sh accept, wf accept, reject, zero-swap accept, zero-swap reject, accept that deletes an old path}. A dry run numbers the main "
        "process' file-system effects inside treat_output of that step (open-for-write, content commit, move, remove, rmdir, every single mkdir); then for "
        "EVERY effect index the scenario is re-run and the process is killed (os._exit) immediately before it; for a content commit the file is left "
        "with 0 bytes, 1 byte, half, and all-but-one byte. Thorough adds a second crash inside the recovery run. Oracle on the surviving tree in "
        "fresh forks: the restart starts (no exception, not refused), every needed path loads with non-zero weight, the recorded in-flight jobs are "
        "the first jobs issued, the continuation reaches the requested steps with the per-step invariants of C04/C05/C14, every replaced path is "
        "in the data file exactly once and no live one, and (one worker) rows + live weights equal the step counter. "
        "Non-trivial: crash strictly inside the step's effect list. Distinct = (scenario, step kind, effect index, bytes on disk)."
    )
    ctx.assumptions = ["buffered writes reach the disk at close (small files); the byte-granular cut is made explicit by the interposer",
                       "worker-side effects (run_md) are not crash points: the property is about the main process"]
    scen = scenario_specs(ctx)
    plans = pmap(ctx, plan_scenario, [(ctx.pid, sc, ctx.seed, ctx.quick) for sc in scen])
    jobs = []
    for rec, js in plans:
        ctx.merge(rec)
        jobs += js
    # second crash during the recovery run: for every 5th (quick: 20th) crash job, die again before an effect of the first recovered step
    extra = []
    every = 20 if ctx.quick else 5
    for k, j in enumerate(jobs):
        if k % every == 0:
            for second in ((2,) if ctx.quick else (0, 2, 5)):
                extra.append(tuple(list(j) + [second]))
    # second crash while the restart is being prepared (setup_config repairs the data file): for first crashes that fall between
    # the data-file row and the replacement of restart.toml, die again before effect k of the setup phase
    for j in list(jobs):
        sc, kind, target, restarted, idx, ekind, rel, cut, size, nlog = j[1:11]
        if fclass(rel) in ("restart.toml.tmp", "restart.toml") and (ekind != "commit" or cut == 0):
            for k2, cut2 in (((1, 1),) if ctx.quick else ((0, 0), (1, 0), (1, 1), (2, 0))):
                extra.append(tuple(list(j) + [f"setup:{k2}:{cut2}"]))
    jobs += extra
    ctx.note("crash_runs", len(jobs))
    ctx.note("scenarios", len(scen))
    for rec in pmap(ctx, crash_job, jobs, chunksize=4):
        ctx.merge(rec)
    kinds = {c.split(":", 1)[1] for c in ctx.classes if c.startswith("step:")}
    ctx.note("step_kinds_covered", sorted(kinds))
    ctx.exhaustive = True
    ctx.note("exhaustive_scope", "all single-crash effect indices of the target steps of the generated scenarios (content commits at 3-4 byte cuts)")


def resolve(sc, target, restarted, selector):
    """Effect index of the first effect of the target step matching (kind, file class) -- for saved regression cases,
    which must not depend on the effect numbering of a particular tree."""
    d, _ = prepare(sc)
    try:
        r = run_plain(d, seg_of(sc, sc["N"], restart=restarted, fault={"target": target, "crash_at": None, "phase": "treat"}))
    finally:
        isolate.rmscratch(d)
    log = r.get("fault_log", [])
    for (i, ekind, rel, size) in log:
        if ekind == selector[0] and fclass(rel) in selector[1]:
            return i, ekind, rel, size, len(log)
    return None


def replay(ctx, data):
    if data.get("part") == "crash-at":
        sc, kind, target, restarted = data["scenario"], data["kind"], data["target"], data["restarted"]
        hit = resolve(sc, target, restarted, data["selector"])
        if hit is None:
            ctx.error(f"regression: no effect {data['selector']} in step {target}")
            return
        i, ekind, rel, size, nlog = hit
        cut = {"empty": 0, "prefix": (size or 0) // 2, "all-but-one-byte": max(0, (size or 1) - 1)}[data.get("cut", "prefix")] if ekind == "commit" else 0
        ctx.merge(crash_job((ctx.pid, sc, kind, target, restarted, i, ekind, rel, cut, size, nlog)))
        return
    if data.get("part") == "plan":
        rec, _ = plan_scenario((ctx.pid, data["scenario"], ctx.seed, True))
        ctx.merge(rec)
        return
    ctx.merge(crash_job(tuple([ctx.pid] + list(data["job"]))))
