"""Helpers to call infretis' move functions directly with a scripted engine and scripted streams."""

import importlib.util
import os
import sys

from vlib import isolate

HERE = os.path.dirname(os.path.abspath(__file__))
ENG_FILE = os.path.join(os.path.dirname(HERE), "vlib", "engines", "scripteng.py")


def load_scripteng():
    name = "verif_scripteng"
    if name in sys.modules:
        return sys.modules[name]
    spec = importlib.util.spec_from_file_location(name, ENG_FILE)
    mod = importlib.util.module_from_spec(spec)
    sys.modules[name] = mod
    spec.loader.exec_module(mod)
    return mod


class ScriptRng:
    """Job stream fed from the generated case. Records every draw."""

    def __init__(self, integers=(), randoms=(), normals=()):
        self.i, self.r, self.n = list(integers), list(randoms), list(normals)
        self.log = []

    def integers(self, low, high=None, size=None):
        if high is None:
            low, high = 0, low
        if self.i:
            v = self.i.pop(0)
            v = low + (int(v) % max(1, (high - low)))
        else:
            v = low
        self.log.append(("integers", low, high, v))
        return v

    def random(self, size=None):
        v = self.r.pop(0) if self.r else 0.5
        self.log.append(("random", v))
        return v

    def normal(self, loc=0.0, scale=1.0, size=None):
        v = self.n.pop(0) if self.n else 0.0
        self.log.append(("normal", v))
        return v


class Workdir:
    def __init__(self):
        self.root = isolate.mkscratch("mv_")
        self.exe = os.path.join(self.root, "exe")
        self.load = os.path.join(self.root, "load")
        os.makedirs(self.exe)
        os.makedirs(self.load)

    def close(self):
        isolate.rmscratch(self.root)


def make_engine(wd, script, veldep=False, kpot=0.0, kick=False, temperature=1.0, fail_after=None):
    se = load_scripteng()
    eng = se.ScriptEngine(kpot=kpot, kick=kick, temperature=temperature, fail_after=fail_after)
    eng.order_function = se.ScriptOP(veldep=veldep)
    eng.exe_dir = wd.exe
    eng.script = [dict(s) for s in script]
    eng.rgen = ScriptRng()
    return eng


def make_path(wd, name, orders, maxlen, generated=("sh", 0.0, 0, 0), vels=None, kpot=0.0, path_number=None, status="ACC"):
    """A path whose frames live in one file under wd.load (as a loaded/stored path would)."""
    from infretis.classes.path import Path
    from infretis.classes.system import System

    se = load_scripteng()
    fname = os.path.join(wd.load, f"{name}.scr")
    vels = vels if vels is not None else [1.0] * len(orders)
    se.write_frames(fname, [(float(x), float(v), kpot * x * x) for x, v in zip(orders, vels)])
    p = Path(maxlen=maxlen)
    for i, x in enumerate(orders):
        s = System()
        s.order = [float(x)]
        s.config = (fname, i)
        s.vel_rev = False
        s.vpot = kpot * x * x
        s.ekin = 0.5
        p.phasepoints.append(s)
    p.generated = generated
    p.status = status
    p.path_number = path_number
    p.weights = None
    return p, fname


def snap_path(path):
    return {
        "orders": [list(map(float, pp.order)) for pp in path.phasepoints],
        "config": [tuple(pp.config) for pp in path.phasepoints],
        "vel_rev": [bool(pp.vel_rev) for pp in path.phasepoints],
        "vpot": [pp.vpot for pp in path.phasepoints],
        "n": path.length, "status": path.status, "generated": path.generated, "weights": path.weights,
        "path_number": path.path_number, "maxlen": path.maxlen, "ids": [id(pp) for pp in path.phasepoints],
    }


def file_bytes(fname):
    with open(fname, "rb") as fh:
        return fh.read()
