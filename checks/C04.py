"""C04 - fractional weights are conserved and written exactly once."""
from checks import histcheck
from vlib.hyp import run_property

FLAGS = {"C04": 1}
strategy, body, replay = histcheck.make(
    "C04", FLAGS, ("C04:",),
    lambda st, summ: bool(st.get("steps_with_busy_column") and st.get("replacements")),
    extra_exc=("repex.py:write_to_pathens",),
)


def run(ctx):
    ctx.rule = (
        "Same history generator as C03. Model: per-column idle counter (+1 at every completed step for columns not held by another "
        "in-flight job), set of archived paths. After every treat_output: column increments of the summed fractions are exactly 1/0, "
        "only idle live paths change and only where their weight is non-zero, data-file rows appended = the replaced paths of an "
        "accepted move; at the end rows + [current.frac] of the restart file = idle counts. "
        "Non-trivial: >=1 step with a busy column and >=1 replacement. Distinct = digest of the case. Additionally an exhaustive in-memory exploration (checks/enumsys.py) of small systems (3-4 interfaces; thorough: up to 5): every completion order x every move outcome from {reject, accept-minimal, accept-far} x every result of the scheduler's random choices, run to closure of the reachable (weight matrix, busy marks, in-flight jobs) states with the same invariants; in every state also a kill + restart from the last restart record (the restarted run's picks are enumerated too and its states join the exploration)."
    )
    from checks import enumsys

    enumsys.run_enum(ctx, dict(FLAGS), ("C04:",), ("write_to_pathens",))
    run_property(ctx, "history", strategy, body, ctx.pick(1200, 12000), shards=ctx.procs, shrink=not ctx.quick)
