"""C09 - accepted paths belong to their ensemble; rejections change nothing."""

import math
from fractions import Fraction

from hypothesis import strategies as st

from checks import movekit as mk
from vlib.cli import Violation
from vlib.hyp import run_property
from vlib.oracles import wfweight as wfref

HALF = [x * 0.5 for x in range(-6, 7)]  # increments on the half-integer grid
L0, TOP = 0.0, 4.0
SHIFTS = [0.0, 0.0, 0.0, 3.0, 1.5, -1.0, -2.0, -3.0, -4.0, 0.5]


def sh_of(c):
    return float(c.get("shift", 0.0))


def orders_of(path, c):
    """Order values of a returned path, translated back to the unshifted system."""
    d = sh_of(c)
    return [pp.order[0] - d for pp in path.phasepoints]


def outside(x, left, right):
    return x < left or x > right


def ref_traj(x0, sc, left, right, limit):
    """Frames of a scripted propagation: stops at the first frame outside (success) or at the limit."""
    frames = [x0]
    inc = list(sc["inc"])
    drift = sc["drift"] or 1.0
    while True:
        if outside(frames[-1], left, right):
            return frames, True
        if len(frames) >= limit:
            return frames, False
        frames.append(frames[-1] + (inc.pop(0) if inc else drift))


# ---------------------------------------------------------------- generators
@st.composite
def ens_st(draw):
    kind = draw(st.sampled_from(["plus", "plus", "plus", "minus", "minus_lm1"]))
    if kind == "plus":
        mid = draw(st.sampled_from([0.0, 1.0, 2.0, 3.0]))
        return {"kind": kind, "intf": [L0, mid, TOP], "start_cond": "L"}
    if kind == "minus":
        return {"kind": kind, "intf": ["-inf", L0, L0], "start_cond": "R"}
    return {"kind": kind, "intf": [-3.0, -1.5, L0], "start_cond": ["L", "R"]}


def intf_of(e):
    return tuple(float(x) for x in e["intf"])


@st.composite
def old_path_st(draw, e, max_interior=14):
    """Order sequence valid for the ensemble: end points outside, interior strictly inside, crossing."""
    left, mid, right = intf_of(e)
    n = draw(st.integers(1, max_interior))
    if e["kind"] == "plus":
        grid = [0.5 * k for k in range(1, 8)]  # 0.5 .. 3.5
        interior = [draw(st.sampled_from(grid)) for _ in range(n)]
        if max(interior) < mid:
            interior[draw(st.integers(0, n - 1))] = max(mid, 0.5) if mid < TOP else 3.5
        end = draw(st.sampled_from([-0.5, -1.0, 4.5]))
        return [-0.5] + interior + [end]
    if e["kind"] == "minus":
        grid = [-0.5 * k for k in range(1, 8)]
        interior = [draw(st.sampled_from(grid)) for _ in range(n)]
        return [0.5] + interior + [draw(st.sampled_from([0.5, 1.0]))]
    grid = [-2.5, -2.0, -1.5, -1.0, -0.5]
    interior = [draw(st.sampled_from(grid)) for _ in range(n)]
    start = draw(st.sampled_from([-3.5, 0.5]))
    end = draw(st.sampled_from([-3.5, 0.5]))
    return [start] + interior + [end]


def script_st(ncalls, incs=None):
    one = st.fixed_dictionaries({"inc": st.lists(st.sampled_from(incs or HALF), max_size=12), "drift": st.sampled_from([-1.0, -0.5, 0.5, 1.0])})
    return st.lists(one, min_size=ncalls, max_size=ncalls)


@st.composite
def shoot_cases(draw):
    e = draw(ens_st())
    old = draw(old_path_st(e))
    L = len(old)
    return {
        "ens": e, "old": old, "idx": draw(st.integers(0, 40)),
        "maxlength": draw(st.sampled_from([4, 5, 6, 8, 10, 14, 20, 40, 80])),
        "allowmaxlength": draw(st.sampled_from([False, False, False, True])),
        "loaded": draw(st.sampled_from([False, False, False, True])),
        # how the old path came to be: a move, or re-loaded at a restart ('re': obeys the length rule like any sampled path)
        "origin": draw(st.sampled_from(["sh", "wf", "re", "s+"])),
        "script": draw(script_st(2)),
        "xi_mode": draw(st.sampled_from(["uniform", "at", "below", "above", "at-1", "at+1"])),
        "xi": draw(st.floats(0.001, 0.999)),
        "via_run_md": draw(st.booleans()),
        # the same system translated along the order-parameter axis (all values are multiples of 1/2, so exact):
        # puts lambda_-1 (-3), lambda_0 (0), the middle interfaces or the cap on 0.0 / away from it
        "shift": draw(st.sampled_from(SHIFTS)),
    }


def pick_xi(c, n_old, n_new_free):
    """Boundary targeting: xi around n_old/n_new, n_old/(n_new+-1)."""
    mode = c["xi_mode"]
    if mode == "uniform" or n_new_free is None or n_new_free < 1:
        return c["xi"]
    den = {"at": n_new_free, "below": n_new_free, "above": n_new_free, "at-1": max(1, n_new_free - 1), "at+1": n_new_free + 1}[mode]
    thr = n_old / den
    if thr >= 1.0:
        return c["xi"]
    if mode == "below":
        return math.nextafter(thr, 0.0)
    if mode == "above":
        return math.nextafter(thr, 1.0)
    return thr


def free_trial(c):
    """Length of the trial path when no length limit binds (None if it never exits / other rejection)."""
    e = c["ens"]
    left, mid, right = intf_of(e)
    L = len(c["old"])
    s = 1 + c["idx"] % (L - 2)
    xs = c["old"][s]
    b, okb = ref_traj(xs, c["script"][0], left, right, 10**4)
    f, okf = ref_traj(xs, c["script"][1], left, right, 10**4)
    if not (okb and okf):
        return None
    return len(b) + len(f) - 1 - 2


def ref_shoot(c, xi, exact=True):
    """Reference outcome of the shooting move: ('ACC', orders) or ('REJ', reason)."""
    e = c["ens"]
    left, mid, right = intf_of(e)
    old = c["old"]
    L = len(old)
    s = 1 + c["idx"] % (L - 2)
    xs = old[s]
    sc = e["start_cond"] if isinstance(e["start_cond"], list) else [e["start_cond"]]
    if not (left <= xs < right):
        return "REJ", "KOB", s
    if c["loaded"] or c["allowmaxlength"]:
        maxlen = c["maxlength"]
    else:
        q = int(Fraction(L - 2) / Fraction(xi)) if exact else int((L - 2) / xi)
        maxlen = min(q + 2, c["maxlength"])
    back, okb = ref_traj(xs, c["script"][0], left, right, maxlen - 1)
    if not okb:
        return "REJ", "BTL", s
    end_b = "L" if back[-1] < left else "R"
    if end_b not in sc:
        return "REJ", "BWI", s
    forw, okf = ref_traj(xs, c["script"][1], left, right, maxlen - len(back) + 1)
    if not okf:
        return "REJ", "FTL", s
    trial = back[::-1] + forw[1:]
    if "L" not in sc:
        st_, en_ = trial[0], trial[-1]
        if st_ <= left or en_ <= left:
            return "REJ", "0-L", s
    if set(sc) != {"L", "R"}:
        if not (min(trial) < mid <= max(trial)):
            return "REJ", "NCR", s
    return "ACC", trial, s


def membership(rec, tag, orders, e, maxlength, info):
    """The validity predicate of an accepted path for ensemble e (own comparison on the order list)."""
    left, mid, right = intf_of(e)
    sc = e["start_cond"] if isinstance(e["start_cond"], list) else [e["start_cond"]]
    rec.check(len(orders) >= 3, f"{tag}:accepted-path-shorter-than-3", info)
    rec.check(len(orders) <= maxlength, f"{tag}:accepted-path-exceeds-length-limit", f"{len(orders)} > {maxlength} {info}")
    # a value exactly on an interface counts as outside for an end point and as inside for an interior frame
    # (the engines stop on '<'/'>', the classification uses '<='/'>='; the statement does not separate them)
    s_side = "L" if orders[0] <= left else ("R" if orders[0] >= right else "M")
    e_side = "L" if orders[-1] <= left else ("R" if orders[-1] >= right else "M")
    rec.check(s_side in sc, f"{tag}:accepted-path-starts-on-wrong-side", f"start {orders[0]} ({s_side}) allowed {sc} {info}")
    rec.check(e_side != "M", f"{tag}:accepted-path-ends-between-interfaces", f"end {orders[-1]} {info}")
    if e["kind"] == "minus":
        rec.check(e_side == "R", f"{tag}:accepted-[0-]-path-ends-left", info)
    rec.check(all(left <= x <= right for x in orders[1:-1]), f"{tag}:accepted-path-leaves-interfaces-in-between", f"{orders} {info}")
    if set(sc) != {"L", "R"}:
        rec.check(min(orders) < mid <= max(orders), f"{tag}:accepted-path-does-not-cross-its-interface", f"{orders} mid={mid} {info}")


def build(c, wd, script, veldep=False, kick=False):
    e = c["ens"]
    eng = mk.make_engine(wd, script, veldep=veldep, kick=kick)
    gen = ("ld", float("nan"), 0, 0) if c.get("loaded") else (c.get("origin", "sh"), float("nan") if c.get("origin") == "re" else 0.0, 0, 0)
    d = sh_of(c)
    old, fname = mk.make_path(wd, "old", [x + d for x in c["old"]], c["maxlength"], generated=gen, path_number=7)
    tis_set = {"maxlength": c["maxlength"], "allowmaxlength": c.get("allowmaxlength", False), "zero_momentum": bool(c.get("zero_momentum", False)),
               "n_jumps": c.get("n_jumps", 2), "quantis": False, "lambda_minus_one": (-3.0 + d if e["kind"] == "minus_lm1" else False), "accept_all": False}
    if c.get("cap") is not None:
        tis_set["interface_cap"] = c["cap"] + d
    ens_set = {"interfaces": tuple(x + d for x in intf_of(e)), "tis_set": tis_set, "mc_move": c.get("move", "sh"), "ens_name": "007",
               "start_cond": e["start_cond"], "rgen": None}
    return eng, old, fname, ens_set


def call_move(c, eng, old, ens_set, rng, wd, via_run_md):
    """Returns (accept, new_path_or_None, status, picked_traj_after)."""
    from infretis.core import tis

    ens_set["rgen"] = rng
    if not via_run_md:
        fn = tis.shoot if ens_set["mc_move"] == "sh" else tis.wire_fencing
        acc, path, status = fn(ens_set, old, eng, start_cond=ens_set["start_cond"])
        return acc, path, status, None
    tis.ENGINES = {"engine": [eng]}
    all_intf = [L0, 1.0, 2.0, 3.0, TOP]
    ens_num = -1 if c["ens"]["kind"] != "plus" else all_intf.index(float(c["ens"]["intf"][1]))
    all_intf = [x + sh_of(c) for x in all_intf]
    picked = {ens_num: {"ens": ens_set, "traj": old, "pn_old": old.path_number, "eng_idx": {"engine": 0}, "exe_dir": wd.exe, "rgen-eng": eng.rgen}}
    mc_moves = ["sh"] + [ens_set["mc_move"]] * len(all_intf)
    if c.get("other_moves"):  # the other plus ensembles have moves of their own
        mc_moves = ["sh"] + [m if k != ens_num else ens_set["mc_move"] for k, m in enumerate(c["other_moves"])] + [ens_set["mc_move"]]
    c["_mc_moves"] = mc_moves
    md = {"picked": picked, "mc_moves": mc_moves, "interfaces": all_intf, "cap": ens_set["tis_set"].get("interface_cap"),
          "moves": [], "trial_len": [], "trial_op": [], "generated": []}
    out = tis.run_md(md)
    status = out["status"]
    traj = out["picked"][ens_num]["traj"]
    return status == "ACC", (traj if status == "ACC" else None), status, (traj, ens_num)


def body_shoot(rec, c):
    n_old = len(c["old"]) - 2
    xi = pick_xi(c, n_old, free_trial(c))
    verdict, val, s = ref_shoot(c, xi)
    # xi equal to the float nearest to a non-representable threshold (e.g. 1/5): the exact quotient n_old/xi is just
    # below the integer, the float quotient rounds onto it. Either decision is acceptable there (measure zero).
    rounding_tie = int(Fraction(n_old) / Fraction(xi)) != int(n_old / xi)
    wd = mk.Workdir()
    try:
        eng, old, fname, ens_set = build(c, wd, c["script"])
        before, fbytes = mk.snap_path(old), mk.file_bytes(fname)
        rng = mk.ScriptRng(integers=[c["idx"]], randoms=[xi])
        info = f"case={ {k: v for k, v in c.items()} } xi={xi!r}"
        try:
            acc, new, status, picked_traj = call_move(c, eng, old, ens_set, rng, wd, c["via_run_md"])
        except Exception as exc:  # noqa: BLE001
            raise Violation(f"sh:raises:{type(exc).__name__}", f"{exc!r} {info}")
        hit_limit = any(len(cl["frames"]) == cl["maxlen"] for cl in eng.calls)
        nn = free_trial(c)
        near = c["xi_mode"] != "uniform" and nn is not None and nn >= 1
        classes = ["shoot", "shoot:" + c["ens"]["kind"], "shoot:" + ("ACC" if acc else "rej:" + str(status))]
        if hit_limit:
            classes.append("shoot:propagation-ended-exactly-at-its-limit")
        if near:
            classes.append("shoot:xi-at-threshold:" + c["xi_mode"])
        rec.case(key=[c, xi], nontrivial=bool(acc or near or hit_limit), classes=classes,
                 sample={"ens": c["ens"], "old": c["old"], "shooting_index": s, "xi": xi, "maxlength": c["maxlength"], "status": status,
                         "new": orders_of(new, c) if new is not None else None} if acc and len(rec.samples) < 2 else None)
        # (4) shooting index never an end point
        draws = [d for d in rng.log if d[0] == "integers"]
        if draws:
            rec.check(all(1 <= d[3] <= len(c["old"]) - 2 and d[1] == 1 and d[2] == len(c["old"]) - 1 for d in draws), "sh:shooting-point-may-be-an-end-point", f"{draws} L={len(c['old'])}")
        rec.check((status == "ACC") == bool(acc), "sh:accept-flag-and-status-disagree", f"{acc} {status}")
        # (3)+(1) decision and path vs the reference
        if rounding_tie and not (c["loaded"] or c["allowmaxlength"]):
            # either rounding of n_old/xi is acceptable: the outcome must match one of the two references
            rec.cls("shoot:rounding-tie-at-threshold(either-rounding-accepted)")
            v2, val2, _ = ref_shoot(c, xi, exact=False)
            if (v2 == "ACC") == bool(acc):
                verdict, val = v2, val2
        if verdict == "ACC":
            if not acc:
                n_new = len(val) - 2
                in_f1 = (not c["loaded"] and not c["allowmaxlength"] and hit_limit)
                rec.check(False, "sh:valid-trial-rejected" + (":trajectory-ends-exactly-at-limit" if in_f1 else ""),
                          f"reference accepts (n_old={n_old}, n_new={n_new}, xi={xi!r} <= {Fraction(n_old, n_new)}), move returned {status}; {info}")
            else:
                got = orders_of(new, c)
                rec.check(got == val, "sh:accepted-path-differs-from-scripted-trajectories", f"got {got} want {val} {info}")
        else:
            rec.check(not acc, f"sh:accepted-although-reference-rejects:{val}", f"status {status}; new={orders_of(new, c) if new else None} {info}")
        if acc:
            got = orders_of(new, c)
            membership(rec, "sh", got, c["ens"], c["maxlength"], info)
            rec.check(c["old"][s] in got, "sh:accepted-path-lacks-shooting-point", info)
            if c["via_run_md"]:
                from infretis.core.tis import calc_cv_vector

                w = new.weights
                rec.check(w is not None and any(x != 0 for x in w), "sh:accepted-path-has-no-weight", f"{w}")
                rec.check(picked_traj[0] is new, "run_md:picked-traj-not-replaced-on-ACC")
        else:
            after = mk.snap_path(old)
            rec.check(after == before, "sh:rejected-move-changed-old-path", f"{ {k: (before[k], after[k]) for k in before if before[k] != after[k]} } status={status}")
            rec.check(mk.file_bytes(fname) == fbytes, "sh:rejected-move-changed-old-files")
            if c["via_run_md"]:
                rec.check(picked_traj[0] is old, "run_md:picked-traj-replaced-on-rejection", f"status {status}")
    finally:
        wd.close()


# ------------------------------------------------------------- wire fencing
@st.composite
def wf_cases(draw):
    mid = draw(st.sampled_from([0.0, 1.0, 2.0]))
    e = {"kind": "plus", "intf": [L0, mid, TOP], "start_cond": "L"}
    old = draw(old_path_st(e, max_interior=16))
    cap = draw(st.sampled_from([None, None, 3.0, 3.5, 4.0, 1.0, 1.5, 2.0, 2.5]))  # (a cap may lie below other interfaces)
    if cap is not None and cap < mid + 1.0:
        cap = None
    nj = draw(st.sampled_from([1, 2, 3, 6]))
    return {
        "ens": e, "old": old, "cap": cap, "n_jumps": nj, "move": "wf",
        "other_moves": draw(st.one_of(st.none(), st.lists(st.sampled_from(["sh", "wf"]), min_size=4, max_size=4))),
        "zero_momentum": draw(st.booleans()),
        "maxlength": draw(st.sampled_from([8, 12, 20, 40, 80])),
        # precondition of wire fencing (staircase weights): the dynamics cannot jump over [lambda_i, cap),
        # whose width is >= 1 here, so increments are limited to +-1
        "script": draw(script_st(2 * nj + 2, incs=[-1.0, -0.5, 0.0, 0.5, 1.0])),
        "ints": draw(st.lists(st.integers(0, 40), min_size=nj, max_size=nj)),
        "rands": draw(st.lists(st.floats(0, 1, exclude_max=True), min_size=nj + 2, max_size=nj + 2)),
        "via_run_md": draw(st.booleans()),
        "shift": draw(st.sampled_from(SHIFTS + [-3.5])),  # -3, -3.5, -4: the cap on 0.0
    }


def body_wf(rec, c):
    wd = mk.Workdir()
    try:
        eng, old, fname, ens_set = build(c, wd, c["script"])
        before, fbytes = mk.snap_path(old), mk.file_bytes(fname)
        rng = mk.ScriptRng(integers=c["ints"], randoms=c["rands"])
        info = f"case={c}"
        try:
            acc, new, status, picked_traj = call_move(c, eng, old, ens_set, rng, wd, c["via_run_md"])
        except AssertionError as exc:
            raise Violation("wf:assertion-in-move", f"{exc!r} {info}")
        except Exception as exc:  # noqa: BLE001
            raise Violation(f"wf:raises:{type(exc).__name__}", f"{exc!r} {info}")
        left, mid, right = intf_of(c["ens"])
        cap = c["cap"] if c["cap"] is not None else right
        w_old = wfref.wf_weight(c["old"], mid, cap)
        # every velocity regeneration inside the move is asked for what the ensemble's settings say (zero_momentum)
        bad = [r for r in getattr(eng, "vel_requests", []) if bool(r.get("zero_momentum", None)) != bool(c.get("zero_momentum", False)) or "zero_momentum" not in r]
        rec.check(not bad, "wf:velocity-request-without-the-configured-zero_momentum", f"{bad[:2]} configured {bool(c.get('zero_momentum', False))} {info}")
        nsucc = sum(1 for cl in eng.calls if cl.get("success"))
        nfail = sum(1 for cl in eng.calls if not cl.get("success"))
        classes = ["wf", "wf:" + ("ACC" if acc else "rej:" + str(status)), f"wf:n_jumps={c['n_jumps']}"]
        if nsucc and nfail:
            classes.append("wf:mixed-success-and-failed-propagations")
        if c["cap"] is not None:
            classes.append("wf:cap")
        rec.case(key=c, nontrivial=bool(acc) or bool(nsucc and nfail), classes=classes,
                 sample={"old": c["old"], "intf": c["ens"]["intf"], "cap": c["cap"], "status": status, "new": orders_of(new, c) if new is not None else None}
                 if acc and len(rec.samples) < 2 else None)
        rec.check((status == "ACC") == bool(acc), "wf:accept-flag-and-status-disagree", f"{acc} {status}")
        if w_old == 0:
            rec.check(not acc, "wf:accepted-from-path-without-eligible-frames", info)
        if acc:
            got = orders_of(new, c)
            membership(rec, "wf", got, c["ens"], c["maxlength"], info)
            w_new = wfref.wf_weight(got, mid, cap)
            rec.check(w_new > 0, "wf:accepted-path-has-zero-weight-in-own-ensemble", f"{got} [{mid},{cap}) {info}")
            # time order: every consecutive pair is a consecutive pair (either direction) of the old path or of one scripted trajectory
            pairs = set()
            d = sh_of(c)  # the engine's own record is in the translated system
            for seq in [c["old"]] + [[x - d for x in cl["frames"]] for cl in eng.calls]:
                for a, b in zip(seq, seq[1:]):
                    pairs.add((a, b))
                    pairs.add((b, a))
            bad = [(a, b) for a, b in zip(got, got[1:]) if (a, b) not in pairs]
            rec.check(not bad, "wf:accepted-path-not-made-of-trajectory-pieces", f"pairs {bad} not consecutive anywhere; {info}")
            # frames reference existing files with that order value
            se = mk.load_scripteng()
            for pp in new.phasepoints:
                fr = se.read_frames(pp.config[0])[pp.config[1]]
                rec.check(fr[0] == pp.order[0], "wf:frame-reference-does-not-hold-its-order", f"{pp.config} holds {fr[0]} order {pp.order[0]}")
            if c["via_run_md"]:
                w = new.weights
                own = picked_traj[1]
                rec.check(w is not None and w[own] != 0, "wf:accepted-path-weight-vector-zero-in-own-ensemble", f"{w} own column {own}")
                # the whole weight vector of the path the move hands back (all plus ensembles are wire-fencing ones in this job):
                # eligible frames between lambda_k and the cap, doubled when the ends are on different sides (C10's definition)
                all_intf = [L0, 1.0, 2.0, 3.0, TOP]
                capv = c["cap"] if c["cap"] is not None else TOP
                if w is not None and not (capv < got[-1] <= TOP):
                    s_side = "L" if got[0] < L0 else "R"
                    e_side = "L" if got[-1] < L0 else "R"
                    mvs = c.pop("_mc_moves")
                    want = tuple(float(wfref.wf_weight(got, lam, capv) * (2 if s_side != e_side else 1)) if mvs[k + 1] == "wf" else (1.0 if lam <= max(got) else 0.0)
                                 for k, lam in enumerate(all_intf[:-1])) + (0.0,)
                    rec.check(tuple(float(x) for x in w) == want, "wf:weight-vector-of-the-accepted-path-differs-from-its-frames", f"got {tuple(w)} want {want} path {got} cap {c['cap']} {info}")
        else:
            after = mk.snap_path(old)
            diff = {k: (before[k], after[k]) for k in before if before[k] != after[k] and k not in ("status", "generated")}
            rec.check(not diff, "wf:rejected-move-changed-old-path-frames", f"{diff} status={status}")
            rec.check(mk.file_bytes(fname) == fbytes, "wf:rejected-move-changed-old-files")
            if c["via_run_md"]:
                rec.check(picked_traj[0] is old, "run_md:picked-traj-replaced-on-rejection", f"status {status}")
    finally:
        wd.close()


# ------------------------------------------------------ kicked-out shooting point
@st.composite
def kob_cases(draw):
    e = {"kind": "plus", "intf": [L0, 1.0, TOP], "start_cond": "L"}
    old = draw(old_path_st(e, max_interior=8))
    return {"ens": e, "old": old, "idx": draw(st.integers(0, 20)), "maxlength": 40, "script": draw(script_st(2)),
            "vnew": draw(st.sampled_from([-20.0, -3.0, -1.0, 0.0, 1.0, 3.0, 20.0])), "via_run_md": False}


def body_kob(rec, c):
    wd = mk.Workdir()
    try:
        eng, old, fname, ens_set = build(c, wd, c["script"], veldep=True, kick=True)
        eng.rgen = mk.ScriptRng(normals=[c["vnew"]])
        rng = mk.ScriptRng(integers=[c["idx"]], randoms=[0.5])
        before = mk.snap_path(old)
        acc, new, status, _ = call_move(c, eng, old, ens_set, rng, wd, False)
        s = 1 + c["idx"] % (len(c["old"]) - 2)
        op = c["old"][s] + 0.25 * c["vnew"]
        out = not (L0 <= op < TOP)
        rec.case(key=c, nontrivial=out, classes=["kob", "kob:kicked-out" if out else "kob:inside"])
        if out:
            rec.check(not acc and status == "KOB", "sh:kicked-out-shooting-point-not-KOB", f"order after kick {op}: {acc} {status}")
            rec.check(len(eng.calls) == 0, "sh:propagated-from-kicked-out-point")
        rec.check(mk.snap_path(old) == before, "sh:velocity-kick-changed-old-path")
    finally:
        wd.close()


# ------------------------------------------------- a shooting move whose old path was produced by a zero swap
@st.composite
def chain_cases(draw):
    from checks import C11

    c = draw(C11.swap_cases())
    c["via_run_md"] = False
    if draw(st.sampled_from([True, True, True, False])):
        # trajectories that let the swap go through: the [0-] leg heads for lambda_0, nothing rests, a generous length limit
        c["maxlength"] = draw(st.sampled_from([12, 20, 60]))
        # (odd multiples of 1/4, so that the legs rarely rest exactly on an interface)
        c["script"] = [{"inc": draw(st.lists(st.sampled_from([-0.75, 0.75, 1.25]), max_size=4)), "drift": draw(st.sampled_from([0.75, 1.25]))},
                       {"inc": draw(st.lists(st.sampled_from([-0.75, 0.75, 1.25]), max_size=5)), "drift": draw(st.sampled_from([-0.75, 0.75, 1.25]))}]
    c["labels"] = [draw(st.sampled_from(["ld", "ld", "sh", "re"])) for _ in range(2)]  # how the two swapped paths came to be
    c["which"] = draw(st.integers(0, 1))
    c["idx"] = draw(st.integers(0, 40))
    c["script2"] = draw(script_st(2))
    c["xi_mode"] = draw(st.sampled_from(["uniform", "above", "above", "at", "below", "at+1"]))
    c["xi"] = draw(st.floats(0.001, 0.999))
    return c


def body_chain(rec, c):
    """[0-]<->[0+] swap, then a shooting move from one of the two new paths: the new path is a sampled path like any other
    (length rule n_old/n_new), whatever the origin of the paths that were swapped."""
    from checks import C11
    from infretis.core import tis

    wd = mk.Workdir()
    try:
        picked, engines, (old0, f0), (old1, f1), rng, e0 = C11.setup_swap(c, wd)
        for tr, lab in zip((old0, old1), c["labels"]):
            tr.generated = (lab, float("nan") if lab in ("ld", "re") else 0.0, 0, 0)
        info = f"case={c}"
        try:
            acc, paths, status, _ = C11.call_swap(c, picked, engines)
        except Exception as exc:  # noqa: BLE001
            raise Violation(f"chain:swap-raises:{type(exc).__name__}", f"{exc!r} {info}")
        which = 0 if c["move1"] == "wf" else c["which"]
        e = (C11.ENS_LM1 if c.get("lm1") else C11.ENS_MINUS) if which == 0 else C11.ENS_PLUS
        left, mid, right = intf_of(e)
        orders = [pp.order[0] for pp in paths[which].phasepoints] if acc else []
        usable = bool(acc) and len(orders) >= 3 and all(left < x < right for x in orders[1:-1])
        if not usable:
            rec.case(key=c, nontrivial=False, classes=["chain", "chain:swap-" + ("accepted-but-frames-on-an-interface(skipped)" if acc else "rejected(skipped)")])
            return
        c2 = {"ens": e, "old": orders, "idx": c["idx"], "maxlength": c["maxlength"], "allowmaxlength": False, "loaded": False, "script": c["script2"],
              "xi_mode": c["xi_mode"], "xi": c["xi"], "shift": 0.0}
        n_old = len(orders) - 2
        xi = pick_xi(c2, n_old, free_trial(c2))
        verdict, val, s = ref_shoot(c2, xi)
        if int(Fraction(n_old) / Fraction(xi)) != int(n_old / xi):
            rec.case(key=c, nontrivial=False, classes=["chain", "chain:rounding-tie(skipped)"])
            return
        eng2 = mk.make_engine(wd, c["script2"])
        ens_set = picked[-1 if which == 0 else 0]["ens"]
        ens_set["rgen"] = mk.ScriptRng(integers=[c["idx"]], randoms=[xi])
        try:
            acc2, new, status2 = tis.shoot(ens_set, paths[which], eng2, start_cond=ens_set["start_cond"])
        except Exception as exc:  # noqa: BLE001
            raise Violation(f"chain:shoot-raises:{type(exc).__name__}", f"{exc!r} {info}")
        nn = free_trial(c2)
        limited = verdict == "REJ" and nn is not None and nn >= 1 and nn + 2 <= c["maxlength"]
        rec.case(key=c, nontrivial=True, classes=["chain", "chain:shoot-from-new-" + ("[0-]" if which == 0 else "[0+]"), "chain:swapped-paths:" + "+".join(c["labels"]),
                                                  "chain:" + ("ACC" if acc2 else "rej:" + str(status2))] + (["chain:rejected-by-the-length-rule-only"] if limited else []),
                 sample={"old[0-]": c["old0"], "old[0+]": c["old1"], "labels": c["labels"], "shoot_from": orders, "xi": xi, "status": status2} if limited and len(rec.samples) < 2 else None)
        if verdict == "ACC":
            rec.check(bool(acc2), "chain:valid-trial-from-a-swapped-path-rejected", f"reference accepts (n_old={n_old}, xi={xi!r}), move returned {status2}; swapped path {orders} {info}")
            if acc2:
                got = [pp.order[0] for pp in new.phasepoints]
                rec.check(got == val, "chain:accepted-path-differs-from-scripted-trajectories", f"got {got} want {val} {info}")
        else:
            rec.check(not acc2, f"chain:accepted-although-reference-rejects:{val}",
                      f"shooting from the path a zero swap produced (labels of the swapped paths {c['labels']}): n_old={n_old}, xi={xi!r}, status {status2}; swapped path {orders} {info}")
    finally:
        wd.close()


PARTS = {"shoot": (shoot_cases, body_shoot), "wf": (wf_cases, body_wf), "kob": (kob_cases, body_kob), "chain": (chain_cases, body_chain)}


def run(ctx):
    ctx.rule = (
        "Direct calls of shoot / wire_fencing / retis_swap_zero (swap part: see C11) (and run_md on top) with a scripted plug-in engine (trajectories = generated increments on a "
        "half-integer grid, so interface values are hit) and a scripted job stream (shooting index, length draw xi). [i+], [0-] and "
        "lambda_-1 ensembles; maxlength 4..80 so limits are hit exactly; loaded / allowmaxlength variants. xi is targeted at n_old/n_new, "
        "n_old/(n_new+-1) and their float neighbours. Shooting: exact reference outcome (accept/reject, order sequence) + membership predicate; "
        "wire fencing: membership predicate, weight>0, every consecutive pair of the new path consecutive in the old path or a scripted "
        "trajectory, frame references hold their order; rejection leaves old path object, frames and files untouched and run_md keeps the "
        "old path. Non-trivial: accepted, or xi at a threshold, or a propagation ending exactly at its limit (shoot); accepted or mixed "
        "successful/failed jumps (wf); kicked-out point (kob). Distinct = digest of the case."
    )
    ctx.assumptions = ["old paths have interior frames strictly inside the interfaces (on-interface interior frames are not generated); trial trajectories may land on interfaces (on = inside)"]
    run_property(ctx, "shoot", shoot_cases, body_shoot, ctx.pick(4000, 60000))
    run_property(ctx, "wf", wf_cases, body_wf, ctx.pick(2500, 30000))
    run_property(ctx, "kob", kob_cases, body_kob, ctx.pick(300, 3000))
    run_property(ctx, "chain", chain_cases, body_chain, ctx.pick(1500, 20000))
    # zero-swap clauses of C09 (membership of accepted swap paths, rejected swaps change nothing): C11's swap machinery
    from checks import C11

    run_property(ctx, "swap", C11.swap_cases, C11.body_swap, ctx.pick(2000, 25000))


def replay(ctx, data):
    if data["part"] == "swap":
        from checks import C11

        return C11.replay(ctx, data)
    strat, body = PARTS[data["part"]]
    try:
        body(ctx, data["case"])
    except Violation as v:
        ctx.violation(v.signature, v.message, data)
