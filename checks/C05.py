"""C05 - the sampler never stalls: a job can always be drawn, sorting terminates."""
from checks import histcheck
from vlib.hyp import run_property

FLAGS = {"C05": 1}
strategy, body, replay = histcheck.make(
    "C05", FLAGS, ("C05:", "EXC:"),
    lambda st, summ: bool(st.get("accepted") and (st.get("events_with>=2_in_flight") or summ["restarts"])),
)


def run(ctx):
    ctx.rule = (
        "Same history generator as C03. Before every pick: the idle block has a perfect matching by the independent permanent oracle and "
        "the probability matrix is finite, non-negative and sums to the number of idle ensembles; after every step: idle slots have a "
        "non-zero diagonal, live paths distinct, path numbers increasing and never reused across restarts; every restart loads; "
        "a child that does not terminate within the time-out (sort loop) or raises is a violation. "
        "Non-trivial: >=1 replacement and (>=2 jobs in flight or a restart). Distinct = digest of the case. Additionally an exhaustive in-memory exploration (checks/enumsys.py) of small systems (3-4 interfaces; thorough: up to 5): every completion order x every move outcome from {reject, accept-minimal, accept-far} x every result of the scheduler's random choices, run to closure of the reachable (weight matrix, busy marks, in-flight jobs) states with the same invariants; in every state also a kill + restart from the last restart record (the restarted run's picks are enumerated too and its states join the exploration)."
    )
    from checks import enumsys

    enumsys.run_enum(ctx, dict(FLAGS), ("C05:", "EXC:"), ())
    run_property(ctx, "history", strategy, body, ctx.pick(1200, 12000), shards=ctx.procs, shrink=not ctx.quick)
