"""C05 - the sampler never stalls: a job can always be drawn, sorting terminates."""
from checks import histcheck
from vlib.hyp import run_property

FLAGS = {"C05": 1}
strategy, body, _hist_replay = histcheck.make(
    "C05", FLAGS, ("C05:", "EXC:"),
    lambda st, summ: bool(st.get("accepted") and (st.get("events_with>=2_in_flight") or summ["restarts"])),
)


def _shape_worker(job):
    """All 0/1 reach shapes of k plus-ensembles (every multiset of staircase rows, sorted arrangement and its reverse), nothing
    busy or one ensemble busy: the first draw of pick() - a choice over the flattened probability matrix - must be possible."""
    import itertools

    import numpy as np

    from checks import C02
    from vlib.cli import Rec
    from vlib.oracles import perm as oracle

    pid, k, multisets = job
    rec = Rec(pid)
    state = C02.new_state()
    for ms in multisets:
        rows = [[1.0] * c + [0.0] * (k - c) for c in ms]
        for slots in (tuple(range(k)), tuple(range(k - 1, -1, -1))):
            W = C02.build_W(k, rows, slots)
            for busy in [None] + list(range(k + 1)):
                locks = [1 if i == busy else 0 for i in range(k + 1)] + [1]
                idx, block = C02.idle_block(W, locks)
                per, _ = oracle.matching_probs(C02.as_exact(block, True))
                info = f"k={k} reach-by-slot={[ms[slots[s]] for s in range(k)]} busy={busy}"
                if per == 0:
                    rec.case(key=None, classes=["shapes:no-perfect-matching(not-a-sampler-state)"])
                    continue
                rec.case(key=[k, list(ms), list(slots), busy], nontrivial=len(set(ms)) >= 2, classes=["shapes", f"shapes:k={k}"],
                         sample={"k": k, "reach_by_slot": [ms[slots[s]] for s in range(k)], "busy": busy} if len(rec.samples) < 1 and len(set(ms)) >= 2 else None)
                try:
                    prob = state.inf_retis(W.copy(), np.array(locks, dtype=float))
                    flat = np.asarray(prob).astype("float64").flatten()
                    np.random.default_rng(1).choice(len(flat), p=np.nan_to_num(flat / np.sum(flat)))  # what pick() does first
                    for a in idx:
                        col = np.asarray(prob).astype("float64")[:, a].flatten()
                        np.random.default_rng(2).choice(len(col), p=np.nan_to_num(col / np.sum(col)))  # ... and then for the chosen ensemble
                except Exception as exc:  # noqa: BLE001
                    rec.violation("C05:no-job-can-be-drawn:" + type(exc).__name__, f"{info}: {exc!r}; min entry {float(np.min(prob)) if 'prob' in dir() else None}",
                                  {"part": "shapes", "k": k, "ms": list(ms), "slots": list(slots), "busy": busy})
    return rec


def run_shapes(ctx):
    import itertools

    from vlib.hyp import pmap

    jobs = []
    for k in (2, 3, 4, 5, 6):
        multisets = list(itertools.combinations_with_replacement(range(1, k + 1), k))
        chunk = max(1, len(multisets) // 16)
        for i in range(0, len(multisets), chunk):
            jobs.append((ctx.pid, k, multisets[i : i + chunk]))
    for r in pmap(ctx, _shape_worker, jobs):
        ctx.merge(r)
    ctx.note("shapes_scope", "all multisets of 0/1 staircase rows for 2..6 plus-ensembles, sorted and reversed arrangement, nothing busy / each single ensemble busy (exhaustive)")


def run(ctx):
    ctx.rule = (
        "Same history generator as C03. Before every pick: the idle block has a perfect matching by the independent permanent oracle and "
        "the probability matrix is finite, non-negative and sums to the number of idle ensembles; after every step: idle slots have a "
        "non-zero diagonal, live paths distinct, path numbers increasing and never reused across restarts; every restart loads; "
        "a child that does not terminate within the time-out (sort loop) or raises is a violation. "
        "Non-trivial: >=1 replacement and (>=2 jobs in flight or a restart). Distinct = digest of the case. Additionally an exhaustive in-memory exploration (checks/enumsys.py) of small systems (3-4 interfaces; thorough: up to 5): every completion order x every move outcome from {reject, accept-minimal, accept-far} x every result of the scheduler's random choices, run to closure of the reachable (weight matrix, busy marks, in-flight jobs) states with the same invariants; in every state also a kill + restart from the last restart record (the restarted run's picks are enumerated too and its states join the exploration)."
    )
    from checks import enumsys

    enumsys.run_enum(ctx, dict(FLAGS), ("C05:", "EXC:"), ())
    run_shapes(ctx)
    run_property(ctx, "history", strategy, body, ctx.pick(1200, 12000), shards=ctx.procs, shrink=not ctx.quick)


def replay(ctx, data):
    if data.get("part") == "shapes":
        r = _shape_worker((ctx.pid, data["k"], [tuple(data["ms"])]))
        ctx.merge(r)
        return
    return _hist_replay(ctx, data)
