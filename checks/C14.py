"""C14 - stored paths read back unchanged; live paths never lose files."""

import math
import os

from hypothesis import strategies as st

from checks import hist, histcheck
from vlib import isolate
from vlib.cli import Violation
from vlib.hyp import run_property


# ------------------------------------------------------------------- (a) round trip
@st.composite
def store_cases(draw, long_paths=False):
    nfiles = draw(st.integers(1, 4))
    nframes = draw(st.integers(1, 14))
    ncomp = draw(st.integers(1, 3))
    grid6 = st.integers(-3_000_000, 3_000_000).map(lambda k: k / 1_000_000)
    off = st.floats(-50, 50).map(lambda x: round(x, 9))
    val = st.one_of(grid6, off, st.sampled_from([0.0, -0.0, 1.0, -0.9999995, 123456.789, 0.0000005]))
    frames = []
    for _ in range(nframes):
        en = draw(st.sampled_from(["both", "both", "none", "vpot-only"]))
        frames.append({"file": draw(st.integers(0, nfiles - 1)), "idx": draw(st.one_of(st.integers(0, 30), st.integers(0, 30), st.integers(0, 30), st.none())), "rev": draw(st.booleans()),  # None: a single-configuration file
                       "order": [draw(val) for _ in range(ncomp)],
                       "vpot": draw(val) if en in ("both", "vpot-only") else None, "ekin": draw(val) if en == "both" else None})
    # very long paths (tis_set.maxlength may exceed any built-in default length): the frame pattern repeated to just over 100000 / 2^17 frames
    long = draw(st.sampled_from([100_001, 131_073])) if long_paths else None
    return {"long": long, "frames": frames, "nfiles": nfiles, "number": draw(st.integers(0, 500)), "step": draw(st.integers(0, 9999)),
            "other_fs": draw(st.sampled_from([False, False, False, True])),
            "keep": draw(st.sampled_from([[], [], [".xtc"], [".xtc", ".log"]])), "side": draw(st.lists(st.booleans(), min_size=4, max_size=4)),
            "ext": draw(st.sampled_from(["xyz", "trr", "lammpstrj"])), "energy_attr": draw(st.booleans())}


def body_store(rec, c):
    from infretis.classes.formatter import PathStorage
    from infretis.classes.path import Path, load_path
    from infretis.classes.system import System

    c0 = c
    if c.get("long"):
        c = dict(c, frames=(c["frames"] * (c["long"] // len(c["frames"]) + 1))[: c["long"]])
    d = isolate.mkscratch("st_")
    wroot = d
    if c.get("other_fs"):
        # the worker directories on another file system than the load directory (a scratch disk): moving a file there is
        # not a rename. Only when this machine has two writable file systems.
        import tempfile

        for cand in ("/var/tmp", tempfile.gettempdir(), "/tmp"):
            if os.path.isdir(cand) and os.access(cand, os.W_OK) and os.stat(cand).st_dev != os.stat(d).st_dev:
                wroot = tempfile.mkdtemp(prefix="verif_st_", dir=cand)
                break
    try:
        srcs = []
        for k in range(c["nfiles"]):
            sd = os.path.join(wroot, f"worker{k}")
            os.makedirs(sd)
            f = os.path.join(sd, f"00{k}_123_{k}_traj{'F' if k % 2 else 'B'}.{c['ext']}")
            with open(f, "w") as fh:
                fh.write(f"content of file {k}\n" * 3)
            srcs.append(f)
            for ext in (".xtc", ".log"):
                if c["side"][k]:
                    with open(os.path.splitext(f)[0] + ext, "w") as fh:
                        fh.write(f"side {ext} {k}")
        path = Path(maxlen=len(c["frames"]) + 100)
        for fr in c["frames"]:
            s = System()
            s.order = list(fr["order"])
            s.config = (srcs[fr["file"]], fr["idx"])
            s.vel_rev = fr["rev"]
            if c["energy_attr"] or fr["vpot"] is not None or fr["ekin"] is not None:
                s.vpot, s.ekin = fr["vpot"], fr["ekin"]
            path.phasepoints.append(s)
        path.path_number = c["number"]
        path.generated = ("sh", 0.5, 1, 2)
        path.status = "ACC"
        path.weights = (1.0, 0.0)
        used = sorted({fr["file"] for fr in c["frames"]})
        snap_cfg = [pp.config for pp in path.phasepoints]
        snap = [(list(pp.order), pp.vel_rev, pp.vpot, pp.ekin) for pp in path.phasepoints]
        store = PathStorage(keep_traj_fnames=list(c["keep"]))
        load_dir = os.path.join(d, "load")
        os.makedirs(load_dir)
        multi = len(used) >= 2
        rev = any(fr["rev"] for fr in c["frames"])
        rec.case(key=c0, nontrivial=multi or rev, classes=["store", "store:multi-file" if multi else "store:one-file"] + (["store:more-than-100000-frames"] if len(c["frames"]) > 100000 else []) + [ "store:reversed-frames" if rev else "store:forward-only",
                                                       "store:keep-side-files" if c["keep"] else "store:no-side-files"] + (["store:worker-directories-on-another-file-system"] if wroot != d else []),
                 sample={"frames": c["frames"][:4], "nframes": len(c["frames"]), "nfiles": c["nfiles"], "number": c["number"], "keep": c["keep"]} if multi and rev and len(rec.samples) < 2 else None)
        try:
            out = store.output(c["step"], {"path": path, "dir": load_dir})
            pdir = os.path.join(load_dir, str(c["number"]))
            back = load_path(pdir)
        except Exception as exc:  # noqa: BLE001
            import traceback

            raise Violation(f"store:raises:{type(exc).__name__}", f"{exc!r}\n{traceback.format_exc()[-800:]} case={str(c)[:3000]}")
        info = f"case={str(c)[:3000]}"
        rec.check(back.length == len(c["frames"]) == out.length, "store:length", f"{back.length} vs {len(c['frames'])}")
        acc = os.path.join(pdir, "accepted")
        for i, (pp, fr) in enumerate(zip(back.phasepoints, c["frames"])):
            want_file = os.path.join(acc, os.path.basename(srcs[fr["file"]]))
            rec.check(os.path.abspath(pp.config[0]) == os.path.abspath(want_file) and int(pp.config[1]) == (fr["idx"] or 0), "store:frame-reference", f"frame {i}: {pp.config} want ({want_file}, {fr['idx'] or 0})")
            rec.check(bool(pp.vel_rev) == fr["rev"], "store:velocity-direction", f"frame {i}: {pp.vel_rev} vs {fr['rev']}")
            got = [float(x) for x in pp.order]
            rec.check(len(got) == len(fr["order"]) and all(abs(g - w) <= 5.0000001e-7 for g, w in zip(got, fr["order"])), "store:order-parameter", f"frame {i}: {got} vs {fr['order']}")
            for key in ("vpot", "ekin"):
                w = fr[key]
                g = getattr(pp, key)
                if w is None:
                    rec.check(g is None or (isinstance(g, float) and math.isnan(g)), f"store:missing-{key}-invented", f"frame {i}: {g}")
                else:
                    rec.check(g is not None and abs(float(g) - w) <= 5.0000001e-7, f"store:{key}", f"frame {i}: {g} vs {w}")
            rec.check(os.path.isfile(pp.config[0]), "store:referenced-file-missing", str(pp.config))
        # files moved into the path's own directory, content intact
        for k in used:
            dst = os.path.join(acc, os.path.basename(srcs[k]))
            rec.check(os.path.isfile(dst) and open(dst).read() == f"content of file {k}\n" * 3, "store:trajectory-file-content", dst)
            for ext in c["keep"]:
                if c["side"][k]:
                    sf = os.path.join(acc, os.path.splitext(os.path.basename(srcs[k]))[0] + ext)
                    rec.check(os.path.isfile(sf) and open(sf).read() == f"side {ext} {k}", "store:side-file-not-kept", sf)
        for k in range(c["nfiles"]):
            if k not in used:
                rec.check(os.path.isfile(srcs[k]), "store:unreferenced-file-touched", srcs[k])
        # returned copy points to the new location; the source object is unchanged
        for pp, fr in zip(out.phasepoints, c["frames"]):
            rec.check(os.path.dirname(pp.config[0]) == acc, "store:returned-path-not-in-archive", str(pp.config))
        rec.check([pp.config for pp in path.phasepoints] == snap_cfg and [(list(pp.order), pp.vel_rev, pp.vpot, pp.ekin) for pp in path.phasepoints] == snap, "store:source-path-object-modified")
        rec.check(out.path_number == c["number"] and out.weights == path.weights and out.generated == path.generated, "store:returned-copy-attributes")
    finally:
        isolate.rmscratch(d)
        if wroot != d:
            isolate.rmscratch(wroot)


# ----------------------------------------------------------------- (b) histories
FLAGS = {"C14": 1}
h_strategy, h_body, h_replay = histcheck.make(
    "C14", FLAGS, ("C14:",),
    lambda st_, summ: bool(st_.get("deletions_while_jobs_in_flight") or (st_.get("deletions") and summ["restarts"])),
    extra_exc=("formatter.py", "repex.py:treat_output"),
)


def run(ctx):
    ctx.rule = (
        "(a) Hypothesis paths: 1-14 frames referencing 1-4 source files in different worker directories in arbitrary order with frame indices, "
        "reversed flags, order vectors of 1-3 components on and off the six-decimal grid, energies present / missing / partly missing, path "
        "numbers, keep_traj_fnames with side files: PathStorage.output then load_path must give the same length, (basename, index, direction), "
        "orders and energies to six decimals, files present with intact content under load/<n>/accepted, source object unchanged. "
        "(b) histories (generator of C03, delete_old off / on / on+all, kills and restarts): after every step the files of every live path and of "
        "every active path of the restart file on disk exist, no file is shared by two live paths, the initial paths are byte-identical, and a "
        "replaced path's files disappear only with delete_old and not before n-2 later replacements. Non-trivial: (a) multi-file or "
        "reversed-frame path; (b) a deletion while jobs were in flight, or deletions in a history with a restart."
    )
    ctx.assumptions = ["frames of one path reference files with distinct basenames (pid+counter prefixes in production)",
                       "the lag asserted is (ensembles - 1) later replacements, one less than what the code implements, so as not to transcribe it"]
    run_property(ctx, "store", store_cases, body_store, ctx.pick(1500, 20000))
    run_property(ctx, "store-long", lambda: store_cases(long_paths=True), body_store, ctx.pick(3, 12), shards=ctx.pick(3, 12), shrink=False)
    run_property(ctx, "history", h_strategy, h_body, ctx.pick(900, 9000), shards=ctx.procs, shrink=not ctx.quick)


def replay(ctx, data):
    if data["part"] == "history":
        return h_replay(ctx, data)
    try:
        body_store(ctx, data["case"])
    except Violation as v:
        ctx.violation(v.signature, v.message, data)
