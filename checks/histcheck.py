"""Common body of the history checks C03/C04/C05: generate histories, filter clauses."""

from checks import hist
from vlib.cli import Violation
from vlib.hyp import run_property


def make(pid, flags, own_prefixes, nontrivial, extra_exc=()):
    """Returns (strategy_fn, body, replay) for property pid."""

    def strategy():
        return hist.history_st()

    def body(rec, case):
        viol, summ = hist.run_case(case, flags)
        st = summ["stats"]
        classes = [f"workers={case['spec']['workers']}", f"n={case['spec']['n']}"]
        for key in ("zero_swap_jobs", "events_with>=2_in_flight", "steps_with_busy_column", "replacements", "kill_with_jobs_in_flight", "deletions", "deletions_while_jobs_in_flight"):
            if st.get(key):
                classes.append("has:" + key)
        if summ["restarts"]:
            classes.append("has:restart")
        if "wf" in case["spec"]["moves"]:
            classes.append("has:wf")
        if case["spec"].get("ensemble_engines"):
            classes.append("has:multi-engine")
        if case["spec"]["cap"] is not None:
            classes.append("has:cap")
        if case["spec"].get("int_toml"):
            classes.append("has:integer-typed-interfaces")
        if case["spec"].get("quantis"):
            classes.append("has:quantis")
        if case["spec"].get("keep_side"):
            classes.append("has:keep_traj_fnames")
        if case["spec"].get("lm1") is not None:
            classes.append("has:lambda_minus_one")
        if case["spec"].get("origin"):
            classes.append("has:translated-system")
            if case["spec"]["origin"] in (case["spec"]["cap"], case["spec"].get("lm1"), 0.5):
                classes.append("has:cap-or-lambda-on-0.0")
        if any("workers" in sg for sg in case["segments"]):
            classes.append("has:restart-on-another-worker-count")
        if case["spec"].get("load_dir") or case["spec"].get("data_dir"):
            classes.append("has:other-load-or-data-directory")
        if any(sg.get("prelude") for sg in case["segments"]):
            classes.append("has:another-simulation-earlier-in-the-interpreter")
        if any(sg.get("handover") == "late" for sg in case["segments"]):
            classes.append("has:late-hand-over-of-submitted-jobs")
        nt = nontrivial(st, summ)
        rec.case(key=case, nontrivial=nt, classes=classes,
                 sample={"spec": case["spec"], "segments": [{k: v for k, v in s.items() if k != "schedule"} | {"schedule": s["schedule"][:8]} for s in case["segments"]],
                         "events": summ["trace"][:10], "stats": st} if nt and len(rec.samples) < 2 else None)
        rec.cls("mc_steps_executed", summ["treat"])
        for sig, msg in viol:
            mine = sig.startswith(own_prefixes) or (sig.startswith("EXC:") and any(x in sig for x in extra_exc))
            if sig.startswith("EXC:") and not mine:
                rec.cls("history-aborted-by-exception-judged-elsewhere:" + sig)
                continue
            if not mine:
                rec.cls("clause-of-other-property:" + sig.split(":")[0])
                continue
            rec.check(False, sig, f"{msg}\n  case: spec={case['spec']} segments={case['segments']}")

    def replay(ctx, data):
        try:
            body(ctx, data["case"])
        except Violation as v:
            ctx.violation(v.signature, v.message, data)

    return strategy, body, replay
