"""Exhaustive exploration of small systems: REPEX_state driven in memory over ALL schedules, pick outcomes and move outcomes.

The real REPEX_state methods (initiate, loop, prep_md_items -> pick_lock/pick/pick_traj_ens/assign_engines, treat_output ->
add_traj/sort_trajstate/inf_retis/write_to_pathens) run unmodified. What is enumerated:
  * which in-flight job completes next (every one),
  * the outcome of the move from an alphabet: reject / accept with a path valid only up to its own ensemble /
    accept with a path valid in every ensemble (zero swaps: reject / accept with a minimal or a far-reaching [0+] path),
  * every result of the scheduler's random choices (rgen.choice over indices with p > 0, the zero-swap coin) through a
    scripted generator: a transition is re-executed with a growing choice script until it needs no further choice.
States are identified by (weight matrix, busy marks, in-flight ensemble/pin sets) and the exploration runs to closure
(or to a state budget, in which case the evidence says so). Invariants are those of vlib.simdrv.Observer.
Path storage is stubbed out; moves are synthesised.
Restarts: in every explored state the process is "killed" and restarted from what write_toml last put on disk (the real
write_toml runs; its config is the snapshot): a new REPEX_state is built the way setup_internal does it (load_paths in the
order of `active`), the W initial picks are enumerated (pick_lock re-issues), and
  * the restart record must list exactly the jobs that were in flight when it was written (all but the newest pick),
  * the restarted run must re-issue exactly those jobs first, in order,
  * the Observer invariants hold, and the state reached joins the exploration (so chains of kills are covered by closure).
"""

import copy
import os
import pickle


def clone(obj):
    """Deep copy through pickle (several times faster than copy.deepcopy for these object graphs)."""
    return pickle.loads(pickle.dumps(obj, protocol=pickle.HIGHEST_PROTOCOL))

import numpy as np

from vlib import isolate, simdrv


class Need(Exception):
    def __init__(self, n):
        self.n = n


class ScriptedGen:
    """Stands in for state.rgen: choices come from the exploration script."""

    def __new__(cls, script=()):
        # pick_lock builds the stream of a re-issued job as type(self.rgen)(bit_generator): hand out a real generator then
        if not isinstance(script, (list, tuple)):
            return np.random.Generator(script)
        return super().__new__(cls)

    def __init__(self, script=()):
        self.script = list(script)
        self.used = 0
        self.bit_generator = np.random.default_rng(0).bit_generator

    def _next(self, n):
        if self.used >= len(self.script):
            raise Need(n)
        k = self.script[self.used]
        self.used += 1
        return k

    def choice(self, a, p=None, size=None):
        n = a if isinstance(a, (int, np.integer)) else len(a)
        pp = np.asarray(p, float) if p is not None else np.ones(n)
        opts = [i for i in range(n) if pp[i] > 0]
        if not opts:
            raise ValueError("probabilities do not sum to 1")
        if len(opts) == 1:
            k = 0
        else:
            k = self._next(len(opts))
        idx = opts[k]
        return idx if isinstance(a, (int, np.integer)) else a[idx]

    def random(self, size=None):
        return 0.25 if self._next(2) == 0 else 0.75


class FakePath:
    def __init__(self, weights, top, number=None, length=5):
        self.weights = tuple(weights)
        self.ordermax = (float(top), 1)
        self.ordermin = (-1.0, 0)
        self.length = length
        self.adress = set()
        self.path_number = number
        self.generated = ("sh", 0.0, 0, 0)
        self.status = "ACC"


class StubStore:
    keep_traj_fnames = []

    def output(self, step, data):
        return data["path"]


def plus_weights(n, moves, reach, hi):
    """Weight vector (length n) of a plus path reaching `reach` plus ensembles (1..n-1): prefix non-zero."""
    w = []
    for c in range(n - 1):
        if c < reach:
            w.append(1.0 if moves[c + 1] == "sh" else float(hi))
        else:
            w.append(0.0)
    return tuple(w + [0.0])


RESTARTS = True


def _install_snapshot_writer():
    """The real write_toml, followed by a snapshot of what it put on disk (config + the live path objects)."""
    from infretis.classes import repex
    from infretis.classes.repex import REPEX_state

    if getattr(REPEX_state, "_enum_wrapped", False):
        return
    real = REPEX_state.write_toml

    def write_toml(self):
        real(self)
        self._disk = pickle.dumps((self.config, {t.path_number: t for t in self._trajs[:-1]}), protocol=pickle.HIGHEST_PROTOCOL)

    REPEX_state.write_toml = write_toml
    REPEX_state._enum_wrapped = True
    repex.calc_cv_vector = lambda path, *a, **k: path.weights  # FakePaths carry their weight vector


def restart_state(st, n, W):
    """What setup_internal builds from the restart file of `st` (None if nothing was written yet)."""
    from infretis.classes.repex import REPEX_state

    if st._disk is None:
        return None
    cfg, paths_by_num = pickle.loads(st._disk)
    cfg["current"]["restarted_from"] = cfg["current"]["cstep"]
    st2 = REPEX_state(cfg, minus=True)
    st2.traj_data, st2.ensembles = {}, {}
    st2.engine_occ = {"engine": [-1] * min(n, W)}
    st2.pstore = StubStore()
    st2._disk = st._disk
    st2.initiate_ensembles()
    st2.load_paths([paths_by_num[int(pn)] for pn in cfg["current"]["active"]])
    return st2


def make_state(n, W, moves, root):
    from infretis.classes import repex
    from infretis.classes.repex import REPEX_state

    data_file = os.path.join(root, f"data_{n}_{W}.txt")
    open(data_file, "w").close()
    config = {
        "current": {"size": n, "cstep": 0, "active": list(range(n)), "locked": [], "traj_num": n, "frac": {}},
        "simulation": {"interfaces": [k + 0.5 for k in range(n)], "shooting_moves": list(moves), "seed": 0, "steps": 10**9, "load_dir": "load",
                       "tis_set": {"lambda_minus_one": False, "maxlength": 100, "quantis": False, "accept_all": False}, "ensemble_engines": [["engine"] for _ in range(n)]},
        "runner": {"workers": W},
        "output": {"screen": 0, "pattern": False, "data_dir": root, "data_file": data_file, "delete_old": False},
    }
    state = REPEX_state(config, minus=True)
    state.traj_data, state.ensembles = {}, {}
    state.engine_occ = {"engine": [-1] * min(n, W)}
    state.pstore = StubStore()
    if not RESTARTS:
        state.write_toml = _noop
    state._disk = None
    state.initiate_ensembles()
    size = state.n - 1
    for i in range(size - 1):
        p = FakePath(plus_weights(n, moves, i + 1, 2.0), top=i + 1.0, number=i + 1)
        state.add_traj(ens=i, traj=p, valid=p.weights, count=False)
        state.traj_data[i + 1] = {"ens_save_idx": i + 1, "max_op": p.ordermax, "min_op": p.ordermin, "length": p.length, "adress": p.adress, "weights": p.weights,
                                  "frac": np.zeros(size + 1, dtype="longdouble")}
    p0 = FakePath((1.0,), top=1.0, number=0)
    state.add_traj(ens=-1, traj=p0, valid=p0.weights, count=False)
    state.traj_data[0] = {"ens_save_idx": 0, "max_op": p0.ordermax, "min_op": p0.ordermin, "length": p0.length, "adress": p0.adress, "weights": p0.weights,
                          "frac": np.zeros(size + 1, dtype="longdouble")}
    repex.spawn_rng = lambda rgen: np.random.default_rng(0)  # job streams are irrelevant here
    from infretis.core import tis

    tis.ENGINES = {"engine": [object() for _ in range(min(n, W))]}
    return state


def _noop():
    return None


def outcomes(md, n, moves):
    ens = list(md["ens_nums"])
    if len(ens) == 2:
        return ["rej", "acc-min", "acc-top"]
    if ens[0] < 0:
        return ["rej", "acc"]
    return ["rej", "acc-min", "acc-top"]


def synth(md, outcome, n, moves):
    """What run_md would return (after the process boundary)."""
    res = pickle.loads(pickle.dumps(md))
    res["wmd_start"] = res["wmd_end"] = 0.0
    ens = list(res["ens_nums"])
    if outcome == "rej":
        res["status"] = "BWI"
    else:
        res["status"] = "ACC"
        hi = 2.0 if outcome == "acc-min" else 4.0
        for e in ens:
            if e < 0:
                res["picked"][e]["traj"] = FakePath((1.0,), top=1.0)
            else:
                reach = (e + 1) if outcome == "acc-min" else (n - 1)
                res["picked"][e]["traj"] = FakePath(plus_weights(n, moves, reach, hi), top=reach + 0.0)
    res["moves"] = [moves[e + 1] for e in ens]
    res["trial_len"] = [5 for _ in ens]
    res["trial_op"] = [(-1.0, 1.0) for _ in ens]
    res["generated"] = [("sh", 0, 0, 0) for _ in ens]
    return res


def key_of(state, inflight):
    return (state.state.tobytes(), state._locks.tobytes(), tuple(sorted((tuple(m["ens_nums"]), m["pin"]) for m in inflight)), state.toinitiate)


def explore(n, W, moves, flags, max_states=60000):
    """Returns dict(states, transitions, closed, viol[(sig,msg,trace)], stats)."""
    root = isolate.mkscratch("enum_")
    cwd = os.getcwd()
    os.chdir(root)
    try:
        if RESTARTS:
            _install_snapshot_writer()
        state = make_state(n, W, moves, root)
        obs = simdrv.Observer(flags, {})
        blank = {"mc_moves": state.mc_moves, "interfaces": state.interfaces, "cap": state.cap}
        viol, stats = [], {"prep_scripts": 0, "max_inflight": 0, "swap_jobs": 0, "accepts": 0, "sort_swaps": 0, "restarts": 0, "restarts_with_jobs_in_flight": 0,
                           "states_first_seen_via_a_restart": 0}

        def jobs_of(mds):
            return [([int(e) for e in m["ens_nums"]], [str(m["picked"][e]["pn_old"]) for e in m["ens_nums"]]) for m in mds]

        def restart_from(node, trace):
            """Kill now, restart from the file on disk; yields the nodes after the restarted run's initial picks."""
            st, infl, ob = node
            cfg, _ = pickle.loads(st._disk)
            off = st._offset
            recorded = [([int(e) - off for e in l[0]], [str(p) for p in l[1]]) for l in cfg["current"].get("locked", [])]
            expected = jobs_of(infl[:-1]) if len(infl) == W else jobs_of(infl)
            tr = trace + [("kill+restart", tuple(map(str, recorded)))]
            if sorted(recorded) != sorted(expected):
                viol.append(("C06:enum:restart-record-differs-from-jobs-in-flight", f"restart file lists {recorded}; in flight when it was written {expected}", tr))
                return
            stats["restarts"] += 1
            stats["restarts_with_jobs_in_flight"] += bool(recorded)
            st2 = restart_state(st, n, W)
            ob2 = simdrv.Observer(flags, {})
            front = [((st2, [], ob2), tr)]
            for _ in range(W):
                nxt = []
                for nd, t in front:
                    a, b, c = clone(nd)
                    if not a.initiate():
                        nxt.append(((a, b, c), t))
                        continue
                    for nd2, script, dead in run_prep((a, b, c), blank, []):
                        t2 = t + [("restart-pick", script)]
                        for s_, m_ in nd2[2].viol:
                            viol.append((s_, m_, t2))
                        nd2[2].viol = []
                        if not dead:
                            nxt.append((nd2, t2))
                front = nxt
            for nd, t in front:
                nd[0].initiate()
                issued = jobs_of(nd[1])
                if issued[: len(recorded)] != recorded:
                    viol.append(("C06:enum:recorded-jobs-not-reissued-first-and-in-order", f"recorded {recorded}, issued {issued}", t))
                    continue
                yield nd, t

        def run_prep(node, md_in, script_prefix):
            """prep_md_items with all scheduler choices enumerated. Yields (node', script)."""
            stack = [list(script_prefix)]
            while stack:
                script = stack.pop()
                st, infl, ob, md = clone((node[0], node[1], node[2], md_in))
                st.rgen = ScriptedGen(script)
                try:
                    ob.before_prep(st, md)
                    md2 = st.prep_md_items(md)
                    ob.after_prep(st, md2)
                except Need as nd:
                    for c in range(nd.n):
                        stack.append(script + [c])
                    continue
                except Exception as exc:  # noqa: BLE001
                    import traceback

                    ob.bad(f"EXC:{type(exc).__name__}:prep", f"{exc!r} {traceback.format_exc()[-400:]}")
                    yield (st, infl, ob), script, True
                    continue
                infl.append(md2)
                stats["prep_scripts"] += 1
                yield (st, infl, ob), script, False

        # ---- initiation: W picks, all choices enumerated
        frontier = [((state, [], obs), [])]
        for _ in range(W):
            nxt = []
            for node, trace in frontier:
                st, infl, ob = node
                st2, infl2, ob2 = clone(node)
                if not st2.initiate():
                    continue
                for node2, script, dead in run_prep((st2, infl2, ob2), blank, []):
                    if node2[2].viol:
                        for s, m in node2[2].viol:
                            viol.append((s, m, trace + [("init-pick", script)]))
                        node2[2].viol = []
                    if not dead:
                        nxt.append((node2, trace + [("init-pick", script)]))
            frontier = nxt
        # leave the initiation phase as scheduler() does (one more initiate() call returning False)
        start = []
        for node, trace in frontier:
            node[0].initiate()
            start.append((node, trace))
        seen = {}
        queue = []
        for node, trace in start:
            k = key_of(node[0], node[1])
            if k not in seen:
                seen[k] = True
                queue.append((node, trace))
        transitions = 0
        closed = True
        while queue:
            node, trace = queue.pop()
            st, infl, ob = node
            stats["max_inflight"] = max(stats["max_inflight"], len(infl))
            if RESTARTS and st._disk is not None:
                for node_r, tr_r in restart_from(node, trace):
                    transitions += 1
                    k = key_of(node_r[0], node_r[1])
                    if k not in seen:
                        if len(seen) >= max_states:
                            closed = False
                            continue
                        seen[k] = True
                        stats["states_first_seen_via_a_restart"] += 1
                        queue.append((node_r, tr_r[-12:]))
            for j in range(len(infl)):
                for oc in outcomes(infl[j], n, moves):
                    st2, infl2, ob2 = clone(node)
                    st2.rgen = ScriptedGen([])
                    st2.loop()
                    md = infl2.pop(j)
                    res = synth(md, oc, n, moves)
                    step = ("complete", tuple(md["ens_nums"]), oc)
                    try:
                        before = st2.state.copy()
                        ob2.before_treat(st2, res)
                        md2 = st2.treat_output(res)
                        ob2.after_treat(st2, md2)
                    except Exception as exc:  # noqa: BLE001
                        import traceback

                        viol.append((f"EXC:{type(exc).__name__}:treat_output", f"{exc!r} {traceback.format_exc()[-500:]}", trace + [step]))
                        continue
                    if oc != "rej":
                        stats["accepts"] += 1
                    if len(md["ens_nums"]) == 2:
                        stats["swap_jobs"] += 1
                    for s, m in ob2.viol:
                        viol.append((s, m, trace + [step]))
                    ob2.viol = []
                    for node3, script, dead in run_prep((st2, infl2, ob2), md2, []):
                        transitions += 1
                        tr3 = trace + [step, ("pick", script)]
                        for s, m in node3[2].viol:
                            viol.append((s, m, tr3))
                        node3[2].viol = []
                        if dead:
                            continue
                        k = key_of(node3[0], node3[1])
                        if k not in seen:
                            if len(seen) >= max_states:
                                closed = False
                                continue
                            seen[k] = True
                            queue.append((node3, tr3[-12:]))
            if len(viol) > 50:
                break
        return {"states": len(seen), "transitions": transitions, "closed": closed, "viol": viol, "stats": stats}
    finally:
        os.chdir(cwd)
        isolate.rmscratch(root)


def explore_job(job):
    n, W, moves, flags, max_states = job
    try:
        return job, isolate.run_in_fork(explore, (n, W, moves, flags, max_states), timeout=3000)
    except Exception as exc:  # noqa: BLE001
        return job, {"error": repr(exc)[:2000]}


def systems(quick):
    """(interfaces, workers, moves). Quick: every n=3 system and n=4 with one worker (seconds); thorough adds n=4 with 2-3 workers and n=5."""
    out = []
    sets3 = [["sh"] * 3, ["sh", "sh", "wf"], ["sh", "wf", "wf"]]
    sets4 = [["sh"] * 4, ["sh", "sh", "wf", "wf"], ["sh", "wf", "wf", "wf"]]
    for W in (1, 2):
        for mv in sets3:
            out.append((3, W, mv))
    for mv in sets4:
        out.append((4, 1, mv))
    if not quick:
        out += [(4, 2, mv) for mv in sets4] + [(4, 3, mv) for mv in sets4]
        out += [(5, 1, ["sh"] * 5), (5, 1, ["sh", "sh", "wf", "sh", "wf"]), (5, 2, ["sh"] * 5)]
    return out


def run_enum(ctx, flags, own_prefixes, extra_exc=()):
    """Run the exploration for all small systems; merge into ctx (violations filtered by clause prefix)."""
    from vlib.hyp import pmap

    if getattr(ctx, "part", None) and ctx.part != "enum":
        return
    jobs = [(n, W, mv, flags, ctx.pick(40000, 400000)) for n, W, mv in systems(ctx.quick)]
    tot_states = tot_trans = 0
    all_closed = True
    for job, res in pmap(ctx, explore_job, jobs):
        n, W, mv = job[:3]
        if "error" in res:
            ctx.error(f"enumeration n={n} W={W} moves={mv}: {res['error']}")
            continue
        tot_states += res["states"]
        tot_trans += res["transitions"]
        all_closed = all_closed and res["closed"]
        ctx.case(key=["enum", n, W, mv], nontrivial=W >= 2 or "wf" in mv, n=res["transitions"], classes=[f"enum:n={n},W={W}"],
                 sample={"system": {"interfaces": n, "workers": W, "moves": mv}, "states": res["states"], "transitions": res["transitions"], "closed": res["closed"], **res["stats"]}
                 if W >= 2 and len(ctx.samples) < 4 else None)
        # every explored state counts as a distinct non-trivial case of the enumeration
        for i in range(min(res["states"], 5000)):
            ctx.nt.add(f"enum:{n}:{W}:{''.join(m[0] for m in mv)}:{i}")
        for sig, msg, trace in res["viol"]:
            mine = sig.startswith(own_prefixes) or (sig.startswith("EXC:") and (not extra_exc or any(x in sig + msg for x in extra_exc)))
            if not mine:
                ctx.cls("enum:clause-of-other-property:" + sig.split(":")[0])
                continue
            ctx.violation("enum:" + sig, f"system n={n} W={W} moves={mv}: {msg}; last events: {trace[-6:]}", {"part": "enum", "system": [n, W, mv], "trace": [list(map(str, t)) for t in trace[-12:]]})
    ctx.note("enum_states", tot_states)
    ctx.note("enum_transitions", tot_trans)
    ctx.note("enum_closed_under_outcome_alphabet", bool(all_closed))
