"""C07 - every job gets its own random stream."""

from hypothesis import strategies as st

from checks import hist
from vlib import simdrv
from vlib.cli import Violation
from vlib.hyp import run_property

FLAGS = {"C07": 1}


def collect(case):
    h = simdrv.run_history(case["spec"], case["segments"], FLAGS, keep=False)
    for k, r in enumerate(h["results"]):
        if r.get("exc"):
            tb = r["exc"][3] if len(r["exc"]) > 3 else ""
            raise Violation(f"C07:run-aborted:{r['exc'][1]}:{hist.frames(tb)}", f"segment {k}: {r['exc'][2]} case={case}")
    streams = []
    for r in h["results"][::-1]:
        if r.get("carry", {}).get("streams"):
            streams = r["carry"]["streams"]
            break
    viol = [(s, m) for s, m, _ in h["viol"] if s.startswith("C07:")]
    return streams, h["results"], viol


def sid(x):
    return (x[2], x[3])  # (bit-generator state, increment)


def body_unique(rec, c):
    streams, results, viol = collect(c)
    for s, m in viol:
        rec.check(False, s, m)
    seen = {}
    # jobs whose result was never consumed: in flight when a lifetime was killed. Re-issuing (recorded ones) or
    # re-picking (the last, unrecorded pick, reproduced from the restored generator state) them is the same job.
    lost = {j["job"] for r in results if r.get("killed") for j in r.get("inflight_at_end", [])}
    n_reissued = sum(1 for s in streams if s["reissued"])
    conc = sum(r["stats"].get("events_with>=2_in_flight", 0) for r in results)
    kills_inflight = sum(1 for r in results if r.get("killed") and r.get("inflight_at_end"))
    nt = n_reissued >= 1 or conc >= 1
    rec.case(key=c, nontrivial=nt,
             classes=["unique", f"workers={c['spec']['workers']}", f"restarts_with_reissue={min(n_reissued, 3)}", f"kills_inflight={min(kills_inflight,3)}"],
             sample={"spec": c["spec"], "jobs": len(streams), "reissued": n_reissued,
                     "first_streams": [{"job": s["job"], "ens": s["ens"], "spawn_keys": [list(x[1]) for x in s["rng"]], "eng_keys": [list(x[1]) for x in s["rng_eng"]]} for s in streams[:4]]}
             if nt and len(rec.samples) < 2 else None)
    for s in streams:
        ids = [("move", e, x) for e, x in zip(s["ens"], s["rng"])] + [("engine", e, x) for e, x in zip(s["ens"], s["rng_eng"])]
        # within the job: both swap partners, move vs engine stream
        if len({sid(x) for _, _, x in ids}) != len(ids):
            rec.check(False, "C07:streams-within-one-job-coincide", f"job {s['job']} ens {s['ens']}: {[(k, e, x[1]) for k, e, x in ids]}")
        for kind, e, x in ids:
            if sid(x) == sid(s["sched"]) or tuple(x[1]) == ():
                rec.check(False, "C07:job-shares-scheduler-stream", f"job {s['job']} {kind} stream of ens {e}: key {x[1]}")
            key = sid(x)
            if key in seen:
                o, okind, oe = seen[key]
                same_job = (o["job"] in lost and o["ens"] == s["ens"] and o["paths"] == s["paths"]
                            and o["lifetime"] < s["lifetime"] and okind == kind and oe == e)
                if same_job:
                    rec.cls("same-job-reissued-or-repicked")
                # A job that was in flight when its lifetime was killed and that the restart dropped (fewer steps left than
                # recorded jobs) never delivered anything drawn from its stream; a later job with that ordinal gets the
                # stream instead. No two consumed results share a stream, which is what the statement is about.
                unconsumed = o["job"] in lost and o["lifetime"] < s["lifetime"]
                if unconsumed and not same_job:
                    rec.cls("stream-of-a-never-consumed-job-taken-over")
                if not same_job and not unconsumed:
                    when = "concurrent-or-same-lifetime" if o["lifetime"] == s["lifetime"] else "across-restart"
                    rec.check(False, f"C07:two-jobs-same-stream:{when}",
                              f"{kind} stream of job {s['job']} (ens {s['ens']}, paths {s['paths']}, lifetime {s['lifetime']}, key {x[1]}) equals {okind} stream of job {o['job']} "
                              f"(ens {o['ens']}, paths {o['paths']}, lifetime {o['lifetime']})\n  case={c}")
            else:
                seen[key] = (s, kind, e)


# ----------------------------------------------------------- ordinal law
@st.composite
def ordinal_cases(draw):
    spec = draw(hist.spec_st(max_n=6))
    N = draw(st.integers(spec["workers"] + 2, 30))
    kind = "order" if spec["workers"] > 1 else "restart"
    if draw(st.sampled_from([False] * 29 + [True])):
        # the streams of job k depend on seed and ordinal, not on what the sampler had to compute on the way: a system with so
        # many wire-fencing ensembles that the probabilities come from the Monte-Carlo routine vs. the same system with plain shooting
        n = draw(st.integers(14, 15))
        spec = simdrv.lattice_spec(n=n, moves=["sh"] + ["wf"] * (n - 1), workers=1, steps=0, seed=spec["seed"], maxlength=4000, n_jumps=2)
        spec["full_start"] = True
        N, kind = 2, "weights"  # (each step costs several Monte-Carlo estimates: kept short and rare)
    case = {"spec": spec, "N": N, "kind": kind, "seed2": draw(st.integers(0, 2**32 - 1)),
            "pol": draw(st.sampled_from(["random", "newest", "straggler"])), "pol_seed": draw(st.integers(0, 99)),
            "points": sorted(set(draw(st.lists(st.integers(1, N - 1), min_size=1, max_size=2))))}
    return case


def by_ordinal(streams):
    return {s["job"]: ([sid(x) for x in s["rng"]], [sid(x) for x in s["rng_eng"]], len(s["ens"])) for s in streams}


def body_ordinal(rec, c):
    spec, N = c["spec"], c["N"]
    zs = {"zeroswap": spec["zeroswap"]} if spec["zeroswap"] is not None else {}
    base = {"spec": spec, "segments": [dict(steps=N, policy="oldest", policy_seed=0, **zs)]}
    a, _, _ = collect(base)
    A = by_ordinal(a)
    rec.case(key=c, nontrivial=True, classes=["ordinal", "ordinal:" + c["kind"]],
             sample={"spec": spec, "N": N, "kind": c["kind"]} if len(rec.samples) < 1 else None)
    if c["kind"] == "order":
        other = {"spec": spec, "segments": [dict(steps=N, policy=c["pol"], policy_seed=c["pol_seed"], **zs)]}
    elif c["kind"] == "weights":
        other = {"spec": dict(spec, moves=["sh"] * spec["n"]), "segments": base["segments"]}
    else:
        other = {"spec": spec, "segments": [dict(steps=p, policy="oldest", **zs) for p in c["points"] + [N]]}
    b, _, _ = collect(other)
    B = by_ordinal(b)
    # the number of streams of a job depends on whether it was a zero swap (2 ensembles), which depends on the
    # history; the law is about the stream(s) of ordinal k: compare the first stream of each job
    for k in sorted(set(A) & set(B)):
        if A[k][0][0] != B[k][0][0] or A[k][1][0] != B[k][1][0]:
            rec.check(False, f"C07:stream-not-function-of-seed-and-ordinal:{c['kind']}", f"job ordinal {k}: {A[k][0][0]} vs {B[k][0][0]}\n  case={c}")
            break
    rec.check(len(A) == N and len(B) == N, "C07:ordinals-not-one-per-step", f"{len(A)} / {len(B)} jobs for {N} steps")
    if c["kind"] == "weights":
        return
    # another seed changes every stream
    spec2 = dict(spec)
    spec2["seed"] = c["seed2"] if c["seed2"] != spec["seed"] else spec["seed"] + 1
    d, _, _ = collect({"spec": spec2, "segments": base["segments"]})
    D = by_ordinal(d)
    allA = {x for v in A.values() for x in v[0] + v[1]}
    allD = {x for v in D.values() for x in v[0] + v[1]}
    rec.check(not (allA & allD), "C07:streams-independent-of-seed", f"{len(allA & allD)} streams in common for seeds {spec['seed']} and {spec2['seed']}")


# ------------------------------------------------- engine classes: stochastic integrators draw from the job stream
@st.composite
def engine_cases(draw):
    return {"engine": draw(st.sampled_from(["turtlemd", "turtlemd-userseed", "ase", "lammps", "ase-velocityverlet"])), "seed": draw(st.integers(0, 2**31)), "gseed": draw(st.integers(0, 2**31)),
            "n": draw(st.integers(2, 3)), "maxlen": draw(st.integers(4, 9)), "subcycles": draw(st.integers(1, 2)), "boundary": draw(st.sampled_from([True, True, True, False]))}


def body_engine(rec, c):
    import os
    import random
    import sys

    import numpy as np

    from infretis.classes.path import Path
    from vlib import enginekit as ek
    from vlib import isolate

    root = isolate.mkscratch("c07e_")
    try:
        n = c["n"]
        pos = [[5.0 + 3.0 * i, 6.0, 7.0] for i in range(n)]
        vel = [[0.3 * (i + 1), -0.2, 0.1] for i in range(n)]
        name = c["engine"]
        if name.startswith("turtlemd"):
            eng = ek.make_turtlemd(root, [1.0, 2.0, 3.0][:n], pos, temperature=1.0, integrator="LangevinInertia", subcycles=c["subcycles"], timestep=0.01,
                                   user_seed=70 if name.endswith("userseed") else None)
            from infretis.classes.engines.engineparts import write_xyz_trajectory

            src = os.path.join(root, "start.xyz")
            write_xyz_trajectory(src, np.array(pos), np.array(vel), ["Ar"] * n, np.array([50.0] * 3), append=False)
            read = lambda p: open(p).read()  # noqa: E731
        elif name.startswith("ase"):
            # (with the deterministic integrator the only random part of a shooting move is the velocity draw)
            eng = ek.make_ase(root, temperature=300.0, integrator="langevin" if name == "ase" else "velocityverlet", subcycles=c["subcycles"], timestep=1.0)
            src = os.path.join(root, "start.traj")
            ek.ase_frame(src, ["H", "O", "C"][:n], [1.0, 16.0, 12.0][:n], pos, (np.array(vel) * 0.01).tolist())

            def read(p):
                from ase.io import read as aread

                return [(a.positions.tolist(), a.get_velocities().tolist()) for a in aread(p, index=":")]
        else:
            fake = f"{sys.executable} {os.path.join(ek.FAKEBIN, 'lmp')}"
            eng = ek.make_lammps(root, [1.0, 2.5], [1 + (i % 2) for i in range(n)], pos, lmp=fake, subcycles=c["subcycles"], timestep=0.1, sleep=0.001)
            src = os.path.join(root, "start.lammpstrj")
            with open(src, "w") as fh:
                fh.write(ek.lammps_frame_text([1 + (i % 2) for i in range(n)], pos, vel, [(0.0, 30.0)] * 3, trailing_id=True))
            read = lambda p: open(os.path.join(eng.exe_dir, "seed_used.txt")).read().split()[-1]  # noqa: E731
        from infretis.classes.orderparameter import Distance

        eng.order_function = Distance((0, 1), periodic=True)
        ens = {"interfaces": (-1e9, 0.0, 1e9), "ens_name": "007"}

        def run(stream_seed, global_seed):
            np.random.seed(global_seed % 2**32)
            random.seed(global_seed)
            eng.rgen = np.random.default_rng(stream_seed)
            if c.get("boundary", True):
                # as in a real run: the job's engine stream is a spawned child and reaches the worker through pickling
                # (numpy keeps the state of a pickled generator, not its seed sequence)
                import pickle

                eng.rgen = pickle.loads(pickle.dumps(eng.rgen.spawn(2)[1]))
            g0 = (np.random.get_state()[1][:6].tolist(), random.getstate()[1][:6])
            path = Path(maxlen=c["maxlen"])
            start = ek.system_for(src, 0)
            if name == "ase-velocityverlet":
                # the shooting move as a whole: new velocities for the shooting point, then the propagation from it
                eng.modify_velocities(start, {"zero_momentum": False})
            eng.propagate(path, ens, start, reverse=False)
            g1 = (np.random.get_state()[1][:6].tolist(), random.getstate()[1][:6])
            return read(path.phasepoints[0].config[0]), g0 == g1

        a, clean_a = run(c["seed"], c["gseed"])
        b, clean_b = run(c["seed"], c["gseed"] + 17)
        d, _ = run(c["seed"] + 1, c["gseed"])
        rec.case(key=c, nontrivial=True, classes=["engines", "engines:" + name], sample=c if len(rec.samples) < 1 else None)
        rec.check(clean_a and clean_b, f"C07:{name}:stochastic-integrator-draws-from-a-global-generator", f"case={c}")
        rec.check(a == b, f"C07:{name}:same-job-stream-different-trajectory", f"the trajectory / seed depends on something other than the job's engine stream; case={c}")
        rec.check(a != d, f"C07:{name}:different-job-stream-same-trajectory", f"the integrator noise / seed handed to the MD program does not come from the job's engine stream; case={c}")
    finally:
        isolate.rmscratch(root)


@st.composite
def unique_cases(draw):
    return draw(hist.history_st(max_steps=36, max_segments=4, max_n=6, min_workers=1, kills=True))


PARTS = {"unique": (unique_cases, body_unique), "ordinal": (ordinal_cases, body_ordinal), "engines": (engine_cases, body_engine)}


def run(ctx):
    ctx.rule = (
        "Histories (same generator as C03; up to 4 lifetimes, kills with jobs in flight, clean restarts, 1..5 workers): the recorder notes for "
        "every job issued the seed-sequence identity and initial bit-generator state of the move stream and the engine stream of each of "
        "its ensembles, and the scheduler's stream. All must be pairwise distinct (a re-issued in-flight job only against its own earlier "
        "issue), distinct within a zero swap, distinct from the scheduler stream; numpy's and random's global generators must be untouched "
        "by every move. Differential: same seed with another completion order (W>1) or other clean restart points (W=1) gives the same "
        "stream to the same job ordinal; another seed shares no stream. Engines: the same start point propagated with the same job stream under different global seeds "
        "gives the identical trajectory (LAMMPS: the identical seed in run.inp), another job stream gives another one. Non-trivial: a restart that re-issued >=1 job, or >=2 concurrent jobs."
    )
    ctx.assumptions = ["velocity draws of CP2K/LAMMPS/GROMACS(genvel)/ASE/TurtleMD are checked for stream confinement in C16; the 'engines' part here covers the seeds/noise of the "
                       "stochastic integrators (TurtleMD LangevinInertia incl. a stray user 'seed' setting, ASE Langevin, the seed handed to the LAMMPS program)"]
    run_property(ctx, "unique", unique_cases, body_unique, ctx.pick(700, 8000), shards=ctx.procs, shrink=not ctx.quick)
    run_property(ctx, "ordinal", ordinal_cases, body_ordinal, ctx.pick(200, 2500), shards=ctx.procs, shrink=not ctx.quick)
    run_property(ctx, "engines", engine_cases, body_engine, ctx.pick(64, 640), shards=ctx.procs, shrink=not ctx.quick)


def replay(ctx, data):
    strat, body = PARTS[data["part"]]
    try:
        body(ctx, data["case"])
    except Violation as v:
        ctx.violation(v.signature, v.message, data)
