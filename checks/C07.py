"""C07 - every job gets its own random stream."""

from hypothesis import strategies as st

from checks import hist
from vlib import simdrv
from vlib.cli import Violation
from vlib.hyp import run_property

FLAGS = {"C07": 1}


def collect(case):
    h = simdrv.run_history(case["spec"], case["segments"], FLAGS, keep=False)
    for k, r in enumerate(h["results"]):
        if r.get("exc"):
            tb = r["exc"][3] if len(r["exc"]) > 3 else ""
            raise Violation(f"C07:run-aborted:{r['exc'][1]}:{hist.frames(tb)}", f"segment {k}: {r['exc'][2]} case={case}")
    streams = []
    for r in h["results"][::-1]:
        if r.get("carry", {}).get("streams"):
            streams = r["carry"]["streams"]
            break
    viol = [(s, m) for s, m, _ in h["viol"] if s.startswith("C07:")]
    return streams, h["results"], viol


def sid(x):
    return (x[2], x[3])  # (bit-generator state, increment)


def body_unique(rec, c):
    streams, results, viol = collect(c)
    for s, m in viol:
        rec.check(False, s, m)
    seen = {}
    # jobs whose result was never consumed: in flight when a lifetime was killed. Re-issuing (recorded ones) or
    # re-picking (the last, unrecorded pick, reproduced from the restored generator state) them is the same job.
    lost = {j["job"] for r in results if r.get("killed") for j in r.get("inflight_at_end", [])}
    n_reissued = sum(1 for s in streams if s["reissued"])
    conc = sum(r["stats"].get("events_with>=2_in_flight", 0) for r in results)
    kills_inflight = sum(1 for r in results if r.get("killed") and r.get("inflight_at_end"))
    nt = n_reissued >= 1 or conc >= 1
    rec.case(key=c, nontrivial=nt,
             classes=["unique", f"workers={c['spec']['workers']}", f"restarts_with_reissue={min(n_reissued, 3)}", f"kills_inflight={min(kills_inflight,3)}"],
             sample={"spec": c["spec"], "jobs": len(streams), "reissued": n_reissued,
                     "first_streams": [{"job": s["job"], "ens": s["ens"], "spawn_keys": [list(x[1]) for x in s["rng"]], "eng_keys": [list(x[1]) for x in s["rng_eng"]]} for s in streams[:4]]}
             if nt and len(rec.samples) < 2 else None)
    for s in streams:
        ids = [("move", e, x) for e, x in zip(s["ens"], s["rng"])] + [("engine", e, x) for e, x in zip(s["ens"], s["rng_eng"])]
        # within the job: both swap partners, move vs engine stream
        if len({sid(x) for _, _, x in ids}) != len(ids):
            rec.check(False, "C07:streams-within-one-job-coincide", f"job {s['job']} ens {s['ens']}: {[(k, e, x[1]) for k, e, x in ids]}")
        for kind, e, x in ids:
            if sid(x) == sid(s["sched"]) or tuple(x[1]) == ():
                rec.check(False, "C07:job-shares-scheduler-stream", f"job {s['job']} {kind} stream of ens {e}: key {x[1]}")
            key = sid(x)
            if key in seen:
                o, okind, oe = seen[key]
                same_job = (o["job"] in lost and o["ens"] == s["ens"] and o["paths"] == s["paths"]
                            and o["lifetime"] < s["lifetime"] and okind == kind and oe == e)
                if same_job:
                    rec.cls("same-job-reissued-or-repicked")
                if not same_job:
                    when = "concurrent-or-same-lifetime" if o["lifetime"] == s["lifetime"] else "across-restart"
                    rec.check(False, f"C07:two-jobs-same-stream:{when}",
                              f"{kind} stream of job {s['job']} (ens {s['ens']}, paths {s['paths']}, lifetime {s['lifetime']}, key {x[1]}) equals {okind} stream of job {o['job']} "
                              f"(ens {o['ens']}, paths {o['paths']}, lifetime {o['lifetime']})\n  case={c}")
            else:
                seen[key] = (s, kind, e)


# ----------------------------------------------------------- ordinal law
@st.composite
def ordinal_cases(draw):
    spec = draw(hist.spec_st(max_n=6))
    N = draw(st.integers(spec["workers"] + 2, 30))
    kind = "order" if spec["workers"] > 1 else "restart"
    case = {"spec": spec, "N": N, "kind": kind, "seed2": draw(st.integers(0, 2**32 - 1)),
            "pol": draw(st.sampled_from(["random", "newest", "straggler"])), "pol_seed": draw(st.integers(0, 99)),
            "points": sorted(set(draw(st.lists(st.integers(1, N - 1), min_size=1, max_size=2))))}
    return case


def by_ordinal(streams):
    return {s["job"]: ([sid(x) for x in s["rng"]], [sid(x) for x in s["rng_eng"]], len(s["ens"])) for s in streams}


def body_ordinal(rec, c):
    spec, N = c["spec"], c["N"]
    zs = {"zeroswap": spec["zeroswap"]} if spec["zeroswap"] is not None else {}
    base = {"spec": spec, "segments": [dict(steps=N, policy="oldest", policy_seed=0, **zs)]}
    a, _, _ = collect(base)
    A = by_ordinal(a)
    rec.case(key=c, nontrivial=True, classes=["ordinal", "ordinal:" + c["kind"]],
             sample={"spec": spec, "N": N, "kind": c["kind"]} if len(rec.samples) < 1 else None)
    if c["kind"] == "order":
        other = {"spec": spec, "segments": [dict(steps=N, policy=c["pol"], policy_seed=c["pol_seed"], **zs)]}
    else:
        other = {"spec": spec, "segments": [dict(steps=p, policy="oldest", **zs) for p in c["points"] + [N]]}
    b, _, _ = collect(other)
    B = by_ordinal(b)
    # the number of streams of a job depends on whether it was a zero swap (2 ensembles), which depends on the
    # history; the law is about the stream(s) of ordinal k: compare the first stream of each job
    for k in sorted(set(A) & set(B)):
        if A[k][0][0] != B[k][0][0] or A[k][1][0] != B[k][1][0]:
            rec.check(False, f"C07:stream-not-function-of-seed-and-ordinal:{c['kind']}", f"job ordinal {k}: {A[k][0][0]} vs {B[k][0][0]}\n  case={c}")
            break
    rec.check(len(A) == N and len(B) == N, "C07:ordinals-not-one-per-step", f"{len(A)} / {len(B)} jobs for {N} steps")
    # another seed changes every stream
    spec2 = dict(spec)
    spec2["seed"] = c["seed2"] if c["seed2"] != spec["seed"] else spec["seed"] + 1
    d, _, _ = collect({"spec": spec2, "segments": base["segments"]})
    D = by_ordinal(d)
    allA = {x for v in A.values() for x in v[0] + v[1]}
    allD = {x for v in D.values() for x in v[0] + v[1]}
    rec.check(not (allA & allD), "C07:streams-independent-of-seed", f"{len(allA & allD)} streams in common for seeds {spec['seed']} and {spec2['seed']}")


@st.composite
def unique_cases(draw):
    return draw(hist.history_st(max_steps=36, max_segments=4, max_n=6, min_workers=1, kills=True))


PARTS = {"unique": (unique_cases, body_unique), "ordinal": (ordinal_cases, body_ordinal)}


def run(ctx):
    ctx.rule = (
        "Histories (same generator as C03; up to 4 lifetimes, kills with jobs in flight, clean restarts, 1..5 workers): the recorder notes for "
        "every job issued the seed-sequence identity and initial bit-generator state of the move stream and the engine stream of each of "
        "its ensembles, and the scheduler's stream. All must be pairwise distinct (a re-issued in-flight job only against its own earlier "
        "issue), distinct within a zero swap, distinct from the scheduler stream; numpy's and random's global generators must be untouched "
        "by every move. Differential: same seed with another completion order (W>1) or other clean restart points (W=1) gives the same "
        "stream to the same job ordinal; another seed shares no stream. Non-trivial: a restart that re-issued >=1 job, or >=2 concurrent jobs."
    )
    ctx.assumptions = ["engine-class specific confinement (ASE, TurtleMD, LAMMPS, CP2K, GROMACS genvel) is exercised by the 'engines' part when built; the history part uses the plug-in engine"]
    run_property(ctx, "unique", unique_cases, body_unique, ctx.pick(700, 8000), shards=ctx.procs, shrink=not ctx.quick)
    run_property(ctx, "ordinal", ordinal_cases, body_ordinal, ctx.pick(200, 2500), shards=ctx.procs, shrink=not ctx.quick)


def replay(ctx, data):
    strat, body = PARTS[data["part"]]
    try:
        body(ctx, data["case"])
    except Violation as v:
        ctx.violation(v.signature, v.message, data)
